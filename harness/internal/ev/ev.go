// Package ev holds what every check shares: the per-child result record, the
// parent/child supervision (one child process per batch, SIGQUIT watchdog,
// write-ahead case log for crash attribution), race-log parsing, known-findings
// matching, and the evidence writer.
package ev

import (
	"bufio"
	"encoding/json"
	"fmt"
	"os"
	"os/exec"
	"path/filepath"
	"regexp"
	"sort"
	"strconv"
	"strings"
	"sync"
	"syscall"
	"time"
)

const VerifDir = "/verif"

// Violation is one refuting observation.
type Violation struct {
	Signature string          `json:"signature"` // stable: Cnn/rule/site
	What      string          `json:"what"`
	Case      json.RawMessage `json:"case,omitempty"` // enough to replay
}

// Result is what a child reports for its batch.
type Result struct {
	Evaluations  int              `json:"evaluations"`
	Nontrivial   map[string]int   `json:"nontrivial"` // distinct non-trivial case signatures -> count
	Counters     map[string]int64 `json:"counters"`
	Samples      []any            `json:"samples"`
	Violations   []Violation      `json:"violations"`
	Inconclusive int              `json:"inconclusive"`
	Slow         int              `json:"slow"`
	Notes        []string         `json:"notes,omitempty"`
	mu           sync.Mutex
}

func NewResult() *Result {
	return &Result{Nontrivial: map[string]int{}, Counters: map[string]int64{}}
}

func (r *Result) Eval() {
	r.mu.Lock()
	r.Evaluations++
	r.mu.Unlock()
}

func (r *Result) EvalN(n int) {
	r.mu.Lock()
	r.Evaluations += n
	r.mu.Unlock()
}

// Seen records a distinct non-trivial case signature.
func (r *Result) Seen(sig string) {
	r.mu.Lock()
	r.Nontrivial[sig]++
	r.mu.Unlock()
}

func (r *Result) Count(name string, n int64) {
	r.mu.Lock()
	r.Counters[name] += n
	r.mu.Unlock()
}

func (r *Result) Max(name string, n int64) {
	r.mu.Lock()
	if r.Counters[name] < n {
		r.Counters[name] = n
	}
	r.mu.Unlock()
}

func (r *Result) Sample(s any) {
	r.mu.Lock()
	if len(r.Samples) < 4 {
		r.Samples = append(r.Samples, s)
	}
	r.mu.Unlock()
}

func (r *Result) Note(format string, a ...any) {
	r.mu.Lock()
	if len(r.Notes) < 40 {
		r.Notes = append(r.Notes, fmt.Sprintf(format, a...))
	}
	r.mu.Unlock()
}

func (r *Result) Inconcl() {
	r.mu.Lock()
	r.Inconclusive++
	r.mu.Unlock()
}

func (r *Result) SlowOne() {
	r.mu.Lock()
	r.Slow++
	r.mu.Unlock()
}

// Violate records a violation. Only the first few per signature keep their case.
func (r *Result) Violate(sig, what string, c any) {
	r.mu.Lock()
	defer r.mu.Unlock()
	n := 0
	for _, v := range r.Violations {
		if v.Signature == sig {
			n++
		}
	}
	if n >= 3 {
		r.Counters["violations_suppressed:"+sig]++
		return
	}
	var raw json.RawMessage
	if c != nil {
		b, err := json.Marshal(c)
		if err == nil {
			raw = b
		} else {
			raw, _ = json.Marshal(fmt.Sprintf("%+v", c))
		}
	}
	if len(what) > 2000 {
		what = what[:2000] + "…"
	}
	r.Violations = append(r.Violations, Violation{Signature: sig, What: what, Case: raw})
}

func (r *Result) Merge(o *Result) {
	r.mu.Lock()
	defer r.mu.Unlock()
	r.Evaluations += o.Evaluations
	for k, v := range o.Nontrivial {
		r.Nontrivial[k] += v
	}
	for k, v := range o.Counters {
		if strings.HasPrefix(k, "max_") {
			if r.Counters[k] < v {
				r.Counters[k] = v
			}
		} else {
			r.Counters[k] += v
		}
	}
	for _, s := range o.Samples {
		if len(r.Samples) < 4 {
			r.Samples = append(r.Samples, s)
		}
	}
	r.Violations = append(r.Violations, o.Violations...)
	r.Inconclusive += o.Inconclusive
	r.Slow += o.Slow
	for _, n := range o.Notes {
		if len(r.Notes) < 40 {
			r.Notes = append(r.Notes, n)
		}
	}
}

// ---------------------------------------------------------------------------
// environment

func Seed() int64 {
	if s := os.Getenv("VERIF_SEED"); s != "" {
		if v, err := strconv.ParseInt(s, 10, 64); err == nil {
			return v
		}
	}
	return 1
}

// WorkDir returns a short scratch dir under /verif/work, created.
func WorkDir(id string) string {
	d := filepath.Join(VerifDir, "work", fmt.Sprintf("%s.%d", id, os.Getpid()))
	os.MkdirAll(d, 0o755)
	return d
}

// ---------------------------------------------------------------------------
// child side

// ChildEnv describes how the child was invoked.
type ChildEnv struct {
	Prop    string
	Tier    string
	Batch   int
	Batches int
	Dir     string // scratch dir for this child
	Seed    int64
	Replay  string // path of a replay file, if replaying
	wal     *os.File
}

// WAL appends a line to the write-ahead case log (before a case executes).
func (c *ChildEnv) WAL(format string, a ...any) {
	if c.wal == nil {
		f, err := os.OpenFile(filepath.Join(c.Dir, "wal"), os.O_CREATE|os.O_WRONLY|os.O_APPEND, 0o644)
		if err != nil {
			return
		}
		c.wal = f
	}
	s := fmt.Sprintf(format, a...)
	if len(s) > 4000 {
		s = s[:4000]
	}
	c.wal.WriteString(s + "\n")
}

// HangCount is the number of hang violations recorded so far (a check stops early after a few: each
// costs a full hard bound, and a child that ends in the outer watchdog reports nothing).
func (r *Result) HangCount() int {
	r.mu.Lock()
	defer r.mu.Unlock()
	n := 0
	for _, v := range r.Violations {
		if strings.Contains(v.Signature, "/hang") {
			n++
		}
	}
	for k, c := range r.Counters {
		if strings.HasPrefix(k, "violations_suppressed:") && strings.Contains(k, "/hang") {
			n += int(c)
		}
	}
	return n
}

func (c *ChildEnv) WriteResult(r *Result) error {
	r.mu.Lock()
	b, err := json.Marshal(r)
	r.mu.Unlock()
	if err != nil {
		return err
	}
	tmp := filepath.Join(c.Dir, "result.json.tmp")
	if err := os.WriteFile(tmp, b, 0o644); err != nil {
		return err
	}
	return os.Rename(tmp, filepath.Join(c.Dir, "result.json"))
}

// ---------------------------------------------------------------------------
// parent side

// ChildSpec is one child process to run.
type ChildSpec struct {
	Batch      int
	Batches    int
	GOMAXPROCS int    // 0 = leave
	CPUs       string // taskset list, "" = none
	ExtraEnv   []string
	Args       []string // extra args
}

type ChildOutcome struct {
	Spec     ChildSpec
	Result   *Result
	Crashed  bool
	TimedOut bool
	LogPath  string
	LastWAL  string
	RaceLogs []string
	Dir      string
	Wall     time.Duration
}

// RunChild re-executes this binary as a child for one batch.
func RunChild(prop, tier string, spec ChildSpec, parentDir string, watchdog time.Duration) *ChildOutcome {
	dir := filepath.Join(parentDir, fmt.Sprintf("b%d", spec.Batch))
	os.MkdirAll(dir, 0o755)
	logPath := filepath.Join(dir, "log")
	logf, _ := os.Create(logPath)
	defer logf.Close()

	self := selfBinary(parentDir)
	args := []string{self, "--child", prop, tier,
		"--batch", strconv.Itoa(spec.Batch), "--batches", strconv.Itoa(spec.Batches), "--dir", dir}
	args = append(args, spec.Args...)
	if spec.CPUs != "" {
		args = append([]string{"taskset", "-c", spec.CPUs}, args...)
	}
	cmd := exec.Command(args[0], args[1:]...)
	cmd.Stdout = logf
	cmd.Stderr = logf
	cmd.Env = append(os.Environ(),
		"GORACE=halt_on_error=0 log_path="+filepath.Join(dir, "race"),
		"GOTRACEBACK=all",
	)
	if spec.GOMAXPROCS > 0 {
		cmd.Env = append(cmd.Env, "GOMAXPROCS="+strconv.Itoa(spec.GOMAXPROCS))
	}
	cmd.Env = append(cmd.Env, spec.ExtraEnv...)
	cmd.SysProcAttr = &syscall.SysProcAttr{Setpgid: true}

	out := &ChildOutcome{Spec: spec, LogPath: logPath, Dir: dir}
	t0 := time.Now()
	if err := cmd.Start(); err != nil {
		fmt.Fprintf(logf, "start failed: %v\n", err)
		out.Crashed = true
		return out
	}
	done := make(chan error, 1)
	go func() { done <- cmd.Wait() }()
	var werr error
	select {
	case werr = <-done:
	case <-time.After(watchdog):
		out.TimedOut = true
		// goroutine dump into the child's log, then kill the group
		syscall.Kill(-cmd.Process.Pid, syscall.SIGQUIT)
		select {
		case werr = <-done:
		case <-time.After(20 * time.Second):
			syscall.Kill(-cmd.Process.Pid, syscall.SIGKILL)
			werr = <-done
		}
	}
	// make sure no stragglers of the group survive
	syscall.Kill(-cmd.Process.Pid, syscall.SIGKILL)
	out.Wall = time.Since(t0)

	if b, err := os.ReadFile(filepath.Join(dir, "result.json")); err == nil {
		r := NewResult()
		if json.Unmarshal(b, r) == nil {
			if r.Nontrivial == nil {
				r.Nontrivial = map[string]int{}
			}
			if r.Counters == nil {
				r.Counters = map[string]int64{}
			}
			out.Result = r
		}
	}
	if out.Result == nil && !out.TimedOut {
		out.Crashed = true
	}
	_ = werr
	if b, err := os.ReadFile(filepath.Join(dir, "wal")); err == nil {
		lines := strings.Split(strings.TrimSpace(string(b)), "\n")
		out.LastWAL = lines[len(lines)-1]
	}
	out.RaceLogs, _ = filepath.Glob(filepath.Join(dir, "race.*"))
	return out
}

// ---------------------------------------------------------------------------
// race reports

type RaceReport struct {
	Key    string   // dedupe key
	Frames []string // function names with file (no line numbers) of both stacks
	Text   string
	Repo   bool // has a frame under /repo (NRI code)
	// TopRepo: the innermost frame of at least one of the two racing accesses is NRI code. A race whose
	// two accesses both sit in harness code is a harness bug even if NRI frames are further up the stack.
	TopRepo bool
}

var (
	frameFn   = regexp.MustCompile(`^\s{2}(\S.*)\(\)$`)
	frameFile = regexp.MustCompile(`^\s{6}(\S+):(\d+)`)
)

// ParseRaceLogs splits the race detector's output into reports.
func ParseRaceLogs(paths []string) []RaceReport {
	var reps []RaceReport
	for _, p := range paths {
		f, err := os.Open(p)
		if err != nil {
			continue
		}
		sc := bufio.NewScanner(f)
		sc.Buffer(make([]byte, 1<<20), 1<<24)
		var cur []string
		flush := func() {
			if len(cur) == 0 {
				return
			}
			reps = append(reps, mkRace(cur))
			cur = nil
		}
		in := false
		for sc.Scan() {
			l := sc.Text()
			if strings.HasPrefix(l, "WARNING: DATA RACE") {
				flush()
				in = true
			}
			if in {
				cur = append(cur, l)
				if strings.HasPrefix(l, "==================") && len(cur) > 2 {
					flush()
					in = false
				}
			}
		}
		flush()
		f.Close()
	}
	return reps
}

func mkRace(lines []string) RaceReport {
	r := RaceReport{Text: strings.Join(lines, "\n")}
	var fn string
	section := 0 // 1,2 = the two access stacks; >2 = goroutine creation
	var keyParts []string
	topSeen := map[int]bool{}
	for _, l := range lines {
		switch {
		case strings.HasPrefix(l, "Read at"), strings.HasPrefix(l, "Write at"),
			strings.HasPrefix(l, "Previous read at"), strings.HasPrefix(l, "Previous write at"),
			strings.HasPrefix(l, "Atomic"), strings.HasPrefix(l, "Previous atomic"):
			section++
		case strings.HasPrefix(l, "Goroutine "):
			section = 99
		}
		if m := frameFn.FindStringSubmatch(l); m != nil {
			fn = m[1]
			continue
		}
		if m := frameFile.FindStringSubmatch(l); m != nil && fn != "" {
			file := m[1]
			fr := fn + " " + file
			r.Frames = append(r.Frames, fr)
			if strings.HasPrefix(file, "/repo/") {
				r.Repo = true
			}
			if section == 1 || section == 2 {
				// the innermost frame that is not the Go runtime / standard library itself (a racing map access
				// shows up as runtime.mapaccess... on top of the code that does it)
				stdlib := strings.Contains(file, "/go/src/") || strings.Contains(file, "/go-1.") || strings.HasPrefix(fn, "runtime.")
				if !topSeen[section] && !stdlib {
					topSeen[section] = true
					if strings.HasPrefix(file, "/repo/") {
						r.TopRepo = true
					}
				}
				keyParts = append(keyParts, fmt.Sprintf("%d:%s", section, fn))
			}
			fn = ""
		}
	}
	r.Key = strings.Join(keyParts, "|")
	return r
}

// TouchesAny reports whether any frame of the two access stacks lies in one of files
// (paths relative to /repo).
func (r RaceReport) TouchesAny(files []string) bool {
	for _, fr := range r.Frames {
		for _, f := range files {
			if strings.Contains(fr, "/repo/"+f) {
				return true
			}
		}
	}
	return false
}

// ---------------------------------------------------------------------------
// known findings

type Finding struct {
	Status    string `json:"status"` // known | fixed
	Property  string `json:"property"`
	Signature string `json:"signature"`
	What      string `json:"what"`
	Commit    string `json:"commit,omitempty"`
}

func LoadFindings() []Finding {
	b, err := os.ReadFile(filepath.Join(VerifDir, "known_findings.json"))
	if err != nil {
		return nil
	}
	var fs []Finding
	json.Unmarshal(b, &fs)
	return fs
}

// ---------------------------------------------------------------------------
// final report

type Report struct {
	Prop        string
	Tier        string
	Level       string // exploration | fault_enumeration
	Rule        string
	Assumptions []string
	Exhaustive  bool
	MinNontriv  int // floor of distinct non-trivial signatures; below => exit 3
	Extra       map[string]any
}

// Finish merges, writes evidence, prints VIOLATION / KNOWN-FINDING lines and returns the exit code.
func Finish(rep Report, total *Result, start time.Time) int {
	findings := LoadFindings()
	known := map[string]Finding{}
	for _, f := range findings {
		if f.Status == "known" && f.Property == rep.Prop {
			known[f.Signature] = f
		}
	}
	os.MkdirAll(filepath.Join(VerifDir, "replays"), 0o755)
	os.MkdirAll(filepath.Join(VerifDir, "evidence"), 0o755)

	type vgroup struct {
		sig   string
		items []Violation
	}
	groups := map[string]*vgroup{}
	var order []string
	for _, v := range total.Violations {
		g := groups[v.Signature]
		if g == nil {
			g = &vgroup{sig: v.Signature}
			groups[v.Signature] = g
			order = append(order, v.Signature)
		}
		g.items = append(g.items, v)
	}
	sort.Strings(order)

	exit := 0
	unlisted := 0
	knownSeen := []string{}
	for _, sig := range order {
		g := groups[sig]
		if f, ok := known[sig]; ok {
			fmt.Printf("KNOWN-FINDING: property=%s %s (%s; %d occurrence(s) this run)\n", rep.Prop, f.What, sig, len(g.items))
			knownSeen = append(knownSeen, sig)
			continue
		}
		unlisted += len(g.items)
		san := strings.NewReplacer("/", "_", " ", "_", ":", "_").Replace(sig)
		path := filepath.Join(VerifDir, "replays", fmt.Sprintf("%s.%s.json", san, rep.Tier))
		rp := map[string]any{
			"property": rep.Prop, "signature": sig, "seed": Seed(), "tier": rep.Tier,
			"what": g.items[0].What, "case": g.items[0].Case, "occurrences": len(g.items),
		}
		b, _ := json.MarshalIndent(rp, "", " ")
		os.WriteFile(path, b, 0o644)
		fmt.Printf("VIOLATION property=%s replay=%s\n", rep.Prop, path)
		fmt.Printf("  signature=%s what=%s\n", sig, oneLine(g.items[0].What, 400))
		exit = 1
	}

	distinct := len(total.Nontrivial)
	cov := map[string]any{
		"evaluations":         total.Evaluations,
		"distinct_nontrivial": distinct,
		"rule":                rep.Rule,
		"samples":             total.Samples,
		"counters":            total.Counters,
		"inconclusive":        total.Inconclusive,
		"slow":                total.Slow,
		"known_findings_seen": knownSeen,
	}
	if rep.Exhaustive {
		cov["exhaustive"] = true
	}
	if len(total.Notes) > 0 {
		cov["notes"] = total.Notes
	}
	// a compact view of which non-trivial classes were hit
	classes := map[string]int{}
	for k, v := range total.Nontrivial {
		c := k
		if i := strings.Index(k, "|"); i > 0 {
			c = k[:i]
		}
		classes[c] += v
	}
	if len(classes) <= 200 {
		cov["nontrivial_classes"] = classes
	}
	for k, v := range rep.Extra {
		cov[k] = v
	}
	if len(total.Samples) == 0 {
		cov["samples"] = []any{"(no sample recorded)"}
	}
	evd := map[string]any{
		"property_id": rep.Prop,
		"tier":        rep.Tier,
		"seed":        Seed(),
		"level":       rep.Level,
		"coverage":    cov,
		"assumptions": rep.Assumptions,
		"wall_s":      float64(int(time.Since(start).Seconds()*10)) / 10,
		"violations":  unlisted,
	}
	b, _ := json.MarshalIndent(evd, "", " ")
	os.WriteFile(filepath.Join(VerifDir, "evidence", rep.Prop+".json"), b, 0o644)

	if exit == 0 {
		floor := rep.MinNontriv
		if floor < 2 {
			floor = 2
		}
		if total.Evaluations == 0 || distinct < floor {
			fmt.Printf("INCONCLUSIVE property=%s: only %d evaluations / %d distinct non-trivial cases observed (floor %d)\n",
				rep.Prop, total.Evaluations, distinct, floor)
			return 3
		}
		fmt.Printf("OK property=%s tier=%s seed=%d evaluations=%d distinct_nontrivial=%d inconclusive=%d slow=%d wall=%.1fs\n",
			rep.Prop, rep.Tier, Seed(), total.Evaluations, distinct, total.Inconclusive, total.Slow, time.Since(start).Seconds())
	}
	return exit
}

func oneLine(s string, n int) string {
	s = strings.ReplaceAll(s, "\n", " ⏎ ")
	if len(s) > n {
		s = s[:n] + "…"
	}
	return s
}

var (
	selfOnce sync.Once
	selfPath string
)

// selfBinary returns a private hard link (or copy) of the running binary inside the run's scratch
// directory, so that a rebuild of /verif/bin while this run is in progress cannot break its children.
func selfBinary(dir string) string {
	selfOnce.Do(func() {
		exe, err := os.Executable()
		if err != nil {
			selfPath = os.Args[0]
			return
		}
		selfPath = exe
		priv := filepath.Join(dir, "vcheck-self")
		if os.Link(exe, priv) == nil {
			selfPath = priv
			return
		}
		if b, err := os.ReadFile(exe); err == nil && os.WriteFile(priv, b, 0o755) == nil {
			selfPath = priv
		}
	})
	return selfPath
}
