// Package earlyfd records the process's open descriptors as early as a Go program can: in the init of
// a package that imports nothing but syscall and unsafe, so that it is initialised before any package
// that could make the runtime create its own descriptors (the network poller's epoll/eventfd pair is
// created when the first timer or pollable file appears).
package earlyfd

import (
	"syscall"
	"unsafe"
)

// FD is one open descriptor and what it points to.
type FD struct {
	FD   int
	Link string
}

// AtStart is the descriptor table seen at initialisation.
var AtStart []FD

func atoi(s string) int {
	n := 0
	for i := 0; i < len(s); i++ {
		if s[i] < '0' || s[i] > '9' {
			return -1
		}
		n = n*10 + int(s[i]-'0')
	}
	return n
}

// List reads /proc/self/fd with raw system calls.
func List() []FD {
	dfd, err := syscall.Open("/proc/self/fd", syscall.O_RDONLY|syscall.O_DIRECTORY|syscall.O_CLOEXEC, 0)
	if err != nil {
		return nil
	}
	defer syscall.Close(dfd)
	var out []FD
	buf := make([]byte, 8192)
	for {
		n, err := syscall.ReadDirent(dfd, buf)
		if err != nil || n <= 0 {
			break
		}
		b := buf[:n]
		for len(b) > 0 {
			de := (*syscall.Dirent)(unsafe.Pointer(&b[0]))
			if de.Reclen == 0 {
				break
			}
			nb := make([]byte, 0, 16)
			for _, c := range de.Name {
				if c == 0 {
					break
				}
				nb = append(nb, byte(c))
			}
			b = b[de.Reclen:]
			name := string(nb)
			fd := atoi(name)
			if fd < 0 || fd == dfd {
				continue
			}
			lb := make([]byte, 512)
			ln, _ := syscall.Readlink("/proc/self/fd/"+name, lb)
			if ln < 0 {
				ln = 0
			}
			out = append(out, FD{FD: fd, Link: string(lb[:ln])})
		}
	}
	return out
}

func init() { AtStart = List() }
