// Package c15 holds the non-generated half of the C15 check: one-method recorder types for the
// thirteen handler interfaces (the generated code only combines them into one struct type per
// subset) and the runner that drives every generated plugin type against a scripted raw runtime.
package c15

import (
	"context"
	"fmt"
	"sync"

	"github.com/containerd/nri/pkg/api"
	"google.golang.org/protobuf/proto"
)

// Call is one recorded handler invocation.
type Call struct {
	Handler   string
	Pod       *api.PodSandbox
	Ctr       *api.Container
	Res, Over *api.LinuxResources
	SyncPods  []*api.PodSandbox
	SyncCtrs  []*api.Container
}

// Rec is shared by all recorder types embedded in one plugin value.
type Rec struct {
	mu    sync.Mutex
	Calls []Call
	// scripted results
	Fail      bool
	Adjust    *api.ContainerAdjustment
	Updates   []*api.ContainerUpdate
	CfgMask   api.EventMask
	CfgErr    error
	CfgCalls  int
	CfgConfig string
}

func (r *Rec) add(h string, pod *api.PodSandbox, ctr *api.Container, res, over *api.LinuxResources) error {
	c := Call{Handler: h}
	if pod != nil {
		c.Pod = proto.Clone(pod).(*api.PodSandbox)
	}
	if ctr != nil {
		c.Ctr = proto.Clone(ctr).(*api.Container)
	}
	if res != nil {
		c.Res = proto.Clone(res).(*api.LinuxResources)
	}
	if over != nil {
		c.Over = proto.Clone(over).(*api.LinuxResources)
	}
	r.mu.Lock()
	r.Calls = append(r.Calls, c)
	fail := r.Fail
	r.mu.Unlock()
	if fail {
		return fmt.Errorf("scripted failure of %s", h)
	}
	return nil
}

func (r *Rec) Take() []Call {
	r.mu.Lock()
	defer r.mu.Unlock()
	c := r.Calls
	r.Calls = nil
	return c
}

// OwnUpdate is the update a handler returns for the request's own container (besides Rec.Updates).
func OwnUpdate(id string) *api.ContainerUpdate {
	u := &api.ContainerUpdate{ContainerId: id, IgnoreFailure: true}
	u.SetLinuxMemoryLimit(int64(len(id)) + 4096)
	return u
}

// updatesFor: the scripted updates, then one for the container the request is about, then one more
// for another container (so that filtering, reordering or truncation shows).
func (r *Rec) updatesFor(c *api.Container) []*api.ContainerUpdate {
	o := r.updates()
	if c != nil {
		o = append(o, OwnUpdate(c.GetId()), &api.ContainerUpdate{ContainerId: c.GetId() + "-sibling"})
	}
	return o
}

func (r *Rec) updates() []*api.ContainerUpdate {
	var o []*api.ContainerUpdate
	for _, u := range r.Updates {
		o = append(o, proto.Clone(u).(*api.ContainerUpdate))
	}
	return o
}

// The thirteen one-method recorders. Names are used by the generator.

type HRunPod struct{ R *Rec }

func (h HRunPod) RunPodSandbox(_ context.Context, p *api.PodSandbox) error {
	return h.R.add("RunPodSandbox", p, nil, nil, nil)
}

type HUpdatePod struct{ R *Rec }

func (h HUpdatePod) UpdatePodSandbox(_ context.Context, p *api.PodSandbox, over, res *api.LinuxResources) error {
	return h.R.add("UpdatePodSandbox", p, nil, res, over)
}

type HPostUpdatePod struct{ R *Rec }

func (h HPostUpdatePod) PostUpdatePodSandbox(_ context.Context, p *api.PodSandbox) error {
	return h.R.add("PostUpdatePodSandbox", p, nil, nil, nil)
}

type HStopPod struct{ R *Rec }

func (h HStopPod) StopPodSandbox(_ context.Context, p *api.PodSandbox) error {
	return h.R.add("StopPodSandbox", p, nil, nil, nil)
}

type HRemovePod struct{ R *Rec }

func (h HRemovePod) RemovePodSandbox(_ context.Context, p *api.PodSandbox) error {
	return h.R.add("RemovePodSandbox", p, nil, nil, nil)
}

type HCreate struct{ R *Rec }

func (h HCreate) CreateContainer(_ context.Context, p *api.PodSandbox, c *api.Container) (*api.ContainerAdjustment, []*api.ContainerUpdate, error) {
	if err := h.R.add("CreateContainer", p, c, nil, nil); err != nil {
		return nil, nil, err
	}
	var a *api.ContainerAdjustment
	if h.R.Adjust != nil {
		a = proto.Clone(h.R.Adjust).(*api.ContainerAdjustment)
	}
	return a, h.R.updatesFor(c), nil
}

type HPostCreate struct{ R *Rec }

func (h HPostCreate) PostCreateContainer(_ context.Context, p *api.PodSandbox, c *api.Container) error {
	return h.R.add("PostCreateContainer", p, c, nil, nil)
}

type HStart struct{ R *Rec }

func (h HStart) StartContainer(_ context.Context, p *api.PodSandbox, c *api.Container) error {
	return h.R.add("StartContainer", p, c, nil, nil)
}

type HPostStart struct{ R *Rec }

func (h HPostStart) PostStartContainer(_ context.Context, p *api.PodSandbox, c *api.Container) error {
	return h.R.add("PostStartContainer", p, c, nil, nil)
}

type HUpdate struct{ R *Rec }

func (h HUpdate) UpdateContainer(_ context.Context, p *api.PodSandbox, c *api.Container, res *api.LinuxResources) ([]*api.ContainerUpdate, error) {
	if err := h.R.add("UpdateContainer", p, c, res, nil); err != nil {
		return nil, err
	}
	return h.R.updatesFor(c), nil
}

type HPostUpdate struct{ R *Rec }

func (h HPostUpdate) PostUpdateContainer(_ context.Context, p *api.PodSandbox, c *api.Container) error {
	return h.R.add("PostUpdateContainer", p, c, nil, nil)
}

type HStop struct{ R *Rec }

func (h HStop) StopContainer(_ context.Context, p *api.PodSandbox, c *api.Container) ([]*api.ContainerUpdate, error) {
	if err := h.R.add("StopContainer", p, c, nil, nil); err != nil {
		return nil, err
	}
	return h.R.updatesFor(c), nil
}

type HRemove struct{ R *Rec }

func (h HRemove) RemoveContainer(_ context.Context, p *api.PodSandbox, c *api.Container) error {
	return h.R.add("RemoveContainer", p, c, nil, nil)
}

// HConfigure makes a type implement the configuration interface.
type HConfigure struct{ R *Rec }

func (h HConfigure) Configure(_ context.Context, config, runtime, version string) (api.EventMask, error) {
	h.R.mu.Lock()
	defer h.R.mu.Unlock()
	h.R.CfgCalls++
	h.R.CfgConfig = config + "|" + runtime + "|" + version
	return h.R.CfgMask, h.R.CfgErr
}

// HSynchronize makes a type implement the synchronization interface.
type HSynchronize struct{ R *Rec }

func (h HSynchronize) Synchronize(_ context.Context, pods []*api.PodSandbox, ctrs []*api.Container) ([]*api.ContainerUpdate, error) {
	c := Call{Handler: "Synchronize"}
	for _, p := range pods {
		c.SyncPods = append(c.SyncPods, proto.Clone(p).(*api.PodSandbox))
	}
	for _, x := range ctrs {
		c.SyncCtrs = append(c.SyncCtrs, proto.Clone(x).(*api.Container))
	}
	h.R.mu.Lock()
	h.R.Calls = append(h.R.Calls, c)
	h.R.mu.Unlock()
	return h.R.updates(), nil
}

// HShutdown makes a type implement the shutdown interface.
type HShutdown struct{ R *Rec }

func (h HShutdown) Shutdown(context.Context) {
	h.R.mu.Lock()
	h.R.Calls = append(h.R.Calls, Call{Handler: "Shutdown"})
	h.R.mu.Unlock()
}

// Recorders lists the embedded type name per event bit (bit i = event number i+1 of api.Event).
var Recorders = []string{"HRunPod", "HStopPod", "HRemovePod", "HCreate", "HPostCreate", "HStart", "HPostStart",
	"HUpdate", "HPostUpdate", "HStop", "HRemove", "HUpdatePod", "HPostUpdatePod"}

// HandlerName is the handler (= event) name per event bit.
var HandlerName = []string{"RunPodSandbox", "StopPodSandbox", "RemovePodSandbox", "CreateContainer", "PostCreateContainer",
	"StartContainer", "PostStartContainer", "UpdateContainer", "PostUpdateContainer", "StopContainer", "RemoveContainer",
	"UpdatePodSandbox", "PostUpdatePodSandbox"}
