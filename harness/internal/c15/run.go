package c15

import (
	"context"
	"flag"
	"fmt"
	"math/rand/v2"
	"net"
	"os"
	"strings"
	"time"

	"nriverif/internal/ev"
	"nriverif/internal/rig"

	"github.com/containerd/nri/pkg/api"
	"github.com/containerd/nri/pkg/stub"
	"google.golang.org/protobuf/proto"
)

// TypeEntry is one generated plugin type.
type TypeEntry struct {
	Mask    int  // implemented handler interfaces, bit i = event i+1
	WithCfg bool // also implements the configuration interface
	New     func(*Rec) interface{}
}

const validMask = 1<<13 - 1

func maskNames(m int) string {
	var n []string
	for i := 0; i < 13; i++ {
		if m&(1<<i) != 0 {
			n = append(n, HandlerName[i])
		}
	}
	return strings.Join(n, ",")
}

type runner struct {
	res *ev.Result
	g   *rand.Rand
	seq int
}

func await[T any](ch <-chan T, d time.Duration) (T, bool) {
	select {
	case v := <-ch:
		return v, true
	case <-time.After(d):
		var z T
		return z, false
	}
}

func (r *runner) oneCase(e TypeEntry, cfgMask int, cfgErr bool) {
	r.seq++
	id := fmt.Sprintf("t%04x.%d", e.Mask, r.seq)
	what := map[string]any{"implemented": fmt.Sprintf("0x%04x", e.Mask), "handlers": maskNames(e.Mask), "with_configure": e.WithCfg,
		"configure_mask": fmt.Sprintf("0x%04x", cfgMask), "configure_error": cfgErr}
	viol := func(sig, msg string) { r.res.Violate("C15/"+sig, msg, what) }
	r.res.Eval()

	rec := &Rec{CfgMask: api.EventMask(cfgMask)}
	if cfgErr {
		rec.CfgErr = fmt.Errorf("scripted configure failure %s", id)
	}
	rec.Adjust = &api.ContainerAdjustment{Annotations: map[string]string{"adj": id}}
	rec.Adjust.AddLinuxHugepageLimit("2MB", uint64(r.seq))
	u := &api.ContainerUpdate{ContainerId: id + "-other"}
	u.SetLinuxCPUShares(uint64(1000 + r.seq))
	rec.Updates = []*api.ContainerUpdate{u}
	plugin := e.New(rec)

	a, b := net.Pipe()
	rr, err := rig.NewRawRuntime(b)
	if err != nil {
		r.res.Note("raw runtime: %v", err)
		return
	}
	defer rr.Close()
	closed := make(chan struct{}, 4)
	st, err := stub.New(plugin, stub.WithConnection(a), stub.WithPluginName("gen"), stub.WithPluginIdx("42"),
		stub.WithOnClose(func() { closed <- struct{}{} }))
	if e.Mask == 0 {
		if err == nil {
			viol("empty-plugin-accepted", "stub.New accepted a plugin that implements no handler")
		}
		r.res.Seen("empty-subset")
		a.Close()
		return
	}
	if err != nil {
		viol("new-failed", fmt.Sprintf("stub.New failed for a plugin implementing %s: %v", maskNames(e.Mask), err))
		a.Close()
		return
	}
	startErr := make(chan error, 1)
	go func() { startErr <- st.Start(context.Background()) }()
	defer st.Stop()
	reg, ok := await(rr.Registered, 10*time.Second)
	if !ok {
		viol("no-registration", "the stub did not register within 10 s")
		return
	}
	if reg.PluginName != "gen" || reg.PluginIdx != "42" {
		viol("registration-identity", fmt.Sprintf("registered as %q/%q", reg.PluginName, reg.PluginIdx))
	}
	ctx, cancel := context.WithTimeout(context.Background(), 20*time.Second)
	defer cancel()
	// every third case plays an older runtime that does not send its timeouts
	creq := &api.ConfigureRequest{Config: "cfg-" + id, RuntimeName: "rt", RuntimeVersion: "v1", RegistrationTimeout: 5000, RequestTimeout: 2000}
	if r.seq%3 == 0 {
		creq.RegistrationTimeout, creq.RequestTimeout = 0, 0
		what["runtime_sends_timeouts"] = false
	}
	cfg, cerr := rr.Plugin.Configure(ctx, creq)

	// expected subscription
	wantFail := false
	want := e.Mask
	if e.WithCfg {
		switch {
		case cfgErr:
			wantFail = true
		case cfgMask == 0:
			want = e.Mask
		case cfgMask&^e.Mask != 0:
			wantFail = true
		default:
			want = cfgMask
		}
	}
	if wantFail {
		if cerr == nil {
			viol("bad-subscription-accepted", fmt.Sprintf("configuration asking for 0x%04x (implemented 0x%04x, handler error %v) was accepted with events 0x%04x", cfgMask, e.Mask, cfgErr, cfg.GetEvents()))
		}
		if serr, ok := await(startErr, 10*time.Second); !ok {
			viol("start-hangs-after-failed-configure", "Start did not return after a failed configuration")
		} else if serr == nil {
			viol("start-succeeds-after-failed-configure", "Start returned success although configuration failed")
		}
		r.res.Seen(fmt.Sprintf("reject|cfgerr%v", cfgErr))
		return
	}
	if cerr != nil {
		viol("configure-failed", fmt.Sprintf("configuration failed: %v", cerr))
		return
	}
	if int(cfg.Events) != want {
		viol("subscription-differs", fmt.Sprintf("subscribed to 0x%04x (%s), expected 0x%04x (%s)", cfg.Events, maskNames(int(cfg.Events)), want, maskNames(want)))
	}
	if e.WithCfg && (rec.CfgCalls != 1 || rec.CfgConfig != "cfg-"+id+"|rt|v1") {
		viol("configure-dispatch", fmt.Sprintf("Configure handler calls=%d args=%q", rec.CfgCalls, rec.CfgConfig))
	}
	if serr, ok := await(startErr, 10*time.Second); !ok || serr != nil {
		viol("start-failed", fmt.Sprintf("Start did not succeed after configuration (returned=%v err=%v)", ok, serr))
		return
	}
	if !e.WithCfg {
		// no Synchronize handler: the stub itself answers, and must keep to the split protocol
		n := 1 + r.seq%3
		for m := 0; m < n; m++ {
			req := &api.SynchronizeRequest{More: m < n-1, Pods: []*api.PodSandbox{{Id: fmt.Sprintf("%s-sp%d", id, m)}}}
			rsp, err := rr.Plugin.Synchronize(ctx, req)
			if err != nil {
				viol("synchronize-failed", err.Error())
				break
			}
			if rsp.GetMore() != req.More || len(rsp.GetUpdate()) != 0 {
				viol("synchronize-split", fmt.Sprintf("plugin without a Synchronize handler, message %d of %d (more=%v): reply more=%v updates=%d", m+1, n, req.More, rsp.GetMore(), len(rsp.GetUpdate())))
			}
		}
		rec.Take()
	} else {
		// the state arrives in 1-4 messages; the Synchronize handler runs once, with the concatenation
		nmsg := 1 + r.g.IntN(4)
		var wantP []*api.PodSandbox
		var wantC []*api.Container
		for m := 0; m < nmsg; m++ {
			req := &api.SynchronizeRequest{More: m < nmsg-1}
			for k, n := 0, r.g.IntN(4); k < n; k++ {
				req.Pods = append(req.Pods, &api.PodSandbox{Id: fmt.Sprintf("%s-sp%d.%d", id, m, k), Labels: map[string]string{"m": fmt.Sprint(m)}})
			}
			for k, n := 0, r.g.IntN(5); k < n; k++ {
				req.Containers = append(req.Containers, &api.Container{Id: fmt.Sprintf("%s-sc%d.%d", id, m, k), Env: []string{"M=" + fmt.Sprint(m)}})
			}
			wantP, wantC = append(wantP, req.Pods...), append(wantC, req.Containers...)
			rsp, err := rr.Plugin.Synchronize(ctx, req)
			if err != nil {
				viol("synchronize-failed", fmt.Sprintf("message %d of %d: %v", m+1, nmsg, err))
				break
			}
			calls := rec.Take()
			if req.More {
				if len(calls) != 0 || !rsp.GetMore() || len(rsp.GetUpdate()) != 0 {
					viol("synchronize-split", fmt.Sprintf("message %d of %d announced more: handler calls=%d, reply more=%v updates=%d (want 0, true, 0)", m+1, nmsg, len(calls), rsp.GetMore(), len(rsp.GetUpdate())))
				}
				continue
			}
			if len(calls) != 1 || calls[0].Handler != "Synchronize" {
				viol("dispatch/Synchronize", fmt.Sprintf("the last of %d synchronization messages must invoke the Synchronize handler exactly once; calls: %d", nmsg, len(calls)))
				continue
			}
			same := len(calls[0].SyncPods) == len(wantP) && len(calls[0].SyncCtrs) == len(wantC)
			for k := 0; same && k < len(wantP); k++ {
				same = proto.Equal(calls[0].SyncPods[k], wantP[k])
			}
			for k := 0; same && k < len(wantC); k++ {
				same = proto.Equal(calls[0].SyncCtrs[k], wantC[k])
			}
			if !same {
				viol("arguments/Synchronize", fmt.Sprintf("the Synchronize handler received %d pods and %d containers, the %d messages carried %d and %d (or they differ in content or order)", len(calls[0].SyncPods), len(calls[0].SyncCtrs), nmsg, len(wantP), len(wantC)))
			}
			okUpd := len(rsp.GetUpdate()) == len(rec.Updates)
			for k := 0; okUpd && k < len(rec.Updates); k++ {
				okUpd = proto.Equal(rsp.GetUpdate()[k], rec.Updates[k])
			}
			if !okUpd || rsp.GetMore() {
				viol("result/Synchronize", fmt.Sprintf("updates returned by the Synchronize handler reached the runtime changed: %v (more=%v)", rsp.GetUpdate(), rsp.GetMore()))
			}
			r.res.Count(fmt.Sprintf("synchronizations_in_%d_messages", nmsg), 1)
		}
	}

	// every event, subscribed or not, success and failure phase
	for _, fail := range []bool{false, true} {
		rec.mu.Lock()
		rec.Fail = fail
		rec.mu.Unlock()
		for _, bit := range r.g.Perm(13) {
			name := HandlerName[bit]
			impl := e.Mask&(1<<bit) != 0
			tag := fmt.Sprintf("%s.%s.%v", id, name, fail)
			pod := &api.PodSandbox{Id: "pod-" + tag, Name: "n", Namespace: "ns", Labels: map[string]string{"l": tag}}
			ctr := &api.Container{Id: "ctr-" + tag, PodSandboxId: pod.Id, Name: "c", Args: []string{"a", tag}, Env: []string{"E=" + tag}}
			res := &api.LinuxResources{Cpu: &api.LinuxCPU{Shares: &api.OptionalUInt64{Value: uint64(r.seq)}}, Unified: map[string]string{"k": tag}}
			over := &api.LinuxResources{Memory: &api.LinuxMemory{Limit: &api.OptionalInt64{Value: int64(r.seq)}}}
			var rerr error
			var gotAdj *api.ContainerAdjustment
			var gotUpd []*api.ContainerUpdate
			hasResult := false
			wantPod, wantCtr, wantRes, wantOver := pod, ctr, (*api.LinuxResources)(nil), (*api.LinuxResources)(nil)
			switch name {
			case "CreateContainer":
				var rp *api.CreateContainerResponse
				rp, rerr = rr.Plugin.CreateContainer(ctx, &api.CreateContainerRequest{Pod: pod, Container: ctr})
				gotAdj, gotUpd, hasResult = rp.GetAdjust(), rp.GetUpdate(), true
			case "UpdateContainer":
				var rp *api.UpdateContainerResponse
				ureq := &api.UpdateContainerRequest{Pod: pod, Container: ctr, LinuxResources: res}
				wantRes = res
				if r.seq%2 == 0 {
					// a request that carries no resources, about a container that has some of its own: the handler is
					// given what the message carries (nothing), not something looked up elsewhere
					ctr.Linux = &api.LinuxContainer{Resources: &api.LinuxResources{Cpu: &api.LinuxCPU{Shares: &api.OptionalUInt64{Value: 77}}}}
					ureq.LinuxResources, wantRes = nil, nil
				}
				rp, rerr = rr.Plugin.UpdateContainer(ctx, ureq)
				gotUpd, hasResult = rp.GetUpdate(), true
			case "StopContainer":
				var rp *api.StopContainerResponse
				rp, rerr = rr.Plugin.StopContainer(ctx, &api.StopContainerRequest{Pod: pod, Container: ctr})
				gotUpd, hasResult = rp.GetUpdate(), true
			case "UpdatePodSandbox":
				_, rerr = rr.Plugin.UpdatePodSandbox(ctx, &api.UpdatePodSandboxRequest{Pod: pod, OverheadLinuxResources: over, LinuxResources: res})
				wantCtr, wantRes, wantOver = nil, res, over
			default:
				evt := &api.StateChangeEvent{Event: api.Event(bit + 1), Pod: pod, Container: ctr}
				if strings.Contains(name, "PodSandbox") {
					evt.Container = nil
					wantCtr = nil
				}
				_, rerr = rr.Plugin.StateChange(ctx, evt)
			}
			calls := rec.Take()
			if !impl {
				if len(calls) != 0 {
					viol("stray-dispatch", fmt.Sprintf("%s is not implemented, yet handler %s was invoked", name, calls[0].Handler))
				}
				if rerr != nil {
					viol("unimplemented-event-error", fmt.Sprintf("%s (not implemented) returned error %v", name, rerr))
				}
				continue
			}
			if len(calls) != 1 || calls[0].Handler != name {
				var hs []string
				for _, c := range calls {
					hs = append(hs, c.Handler)
				}
				viol("dispatch/"+name, fmt.Sprintf("%s must be delivered exactly once to its own handler; handlers invoked: %v", name, hs))
				continue
			}
			c := calls[0]
			if !proto.Equal(c.Pod, wantPod) || !protoEq(c.Ctr, wantCtr) || !protoEq(c.Res, wantRes) || !protoEq(c.Over, wantOver) {
				viol("arguments/"+name, fmt.Sprintf("handler %s received arguments that differ from the message: pod=%v ctr=%v res=%v overhead=%v", name, c.Pod, c.Ctr, c.Res, c.Over))
			}
			if fail {
				if rerr == nil || !strings.Contains(rerr.Error(), "scripted failure of "+name) {
					viol("error-not-returned/"+name, fmt.Sprintf("handler %s failed but the runtime received err=%v", name, rerr))
				}
				if hasResult && (gotAdj != nil || len(gotUpd) != 0) {
					viol("result-with-error/"+name, "a failed handler's call still returned a result")
				}
				continue
			}
			if rerr != nil {
				viol("unexpected-error/"+name, rerr.Error())
				continue
			}
			if hasResult {
				wantUpd := append(append([]*api.ContainerUpdate(nil), rec.Updates...), OwnUpdate(ctr.GetId()), &api.ContainerUpdate{ContainerId: ctr.GetId() + "-sibling"})
				okUpd := len(gotUpd) == len(wantUpd)
				for i := 0; okUpd && i < len(gotUpd); i++ {
					okUpd = proto.Equal(gotUpd[i], wantUpd[i])
				}
				if !okUpd {
					viol("result/"+name, fmt.Sprintf("updates returned by handler %s reached the runtime changed: %v", name, gotUpd))
				}
				if name == "CreateContainer" && !proto.Equal(gotAdj, rec.Adjust) {
					viol("result/"+name, fmt.Sprintf("adjustment returned by the handler reached the runtime changed: %v", gotAdj))
				}
			}
		}
	}
	r.res.Seen(fmt.Sprintf("type|0x%04x|cfg%v|m0x%04x", e.Mask, e.WithCfg, cfgMask))
	if r.seq <= 2 {
		r.res.Sample(what)
	}
}

func protoEq(a, b proto.Message) bool {
	an := a == nil || !a.ProtoReflect().IsValid()
	bn := b == nil || !b.ProtoReflect().IsValid()
	if an || bn {
		return an == bn
	}
	return proto.Equal(a, b)
}

// Main is the entry point of the generated binaries.
func Main(types []TypeEntry) {
	out := flag.String("out", "", "result file")
	seed := flag.Uint64("seed", 1, "seed")
	flag.Parse()
	rig.QuietLogs()
	r := &runner{res: ev.NewResult(), g: rand.New(rand.NewPCG(*seed, 1500))}
	for _, e := range types {
		if !e.WithCfg {
			r.oneCase(e, 0, false)
			continue
		}
		// configuration-time masks: everything, exactly the implemented set, a subset, one unimplemented bit
		// added, all valid events, and a failing Configure handler
		masks := []int{0, e.Mask}
		if sub := e.Mask & int(r.g.Uint32()); sub != 0 && sub != e.Mask {
			masks = append(masks, sub)
		}
		if free := validMask &^ e.Mask; free != 0 {
			var bits []int
			for i := 0; i < 13; i++ {
				if free&(1<<i) != 0 {
					bits = append(bits, i)
				}
			}
			masks = append(masks, e.Mask|1<<bits[r.g.IntN(len(bits))], validMask)
		}
		for _, m := range masks {
			r.oneCase(e, m, false)
		}
		r.oneCase(e, 0, true)
		if e.Mask != 0 {
			r.resyncCase(e)
		}
		if e.Mask != 0 && e.Mask&(e.Mask-1) != 0 { // at least two handlers: proper subsets exist
			low := e.Mask & -e.Mask
			rest := e.Mask &^ low
			r.reconfigCase(e, []int{low, 0, rest, e.Mask, low})
		}
	}
	env := &ev.ChildEnv{Dir: *out}
	if err := env.WriteResult(r.res); err != nil {
		fmt.Fprintln(os.Stderr, err)
		os.Exit(4)
	}
}

// reconfigCase configures ONE stub several times (Stop and Start again on a fresh connection) with a
// sequence of configuration-time masks; each session's subscription must depend on that session's
// request only.
func (r *runner) reconfigCase(e TypeEntry, seqMasks []int) {
	r.seq++
	what := map[string]any{"implemented": fmt.Sprintf("0x%04x", e.Mask), "handlers": maskNames(e.Mask), "scenario": "reconfigure same stub", "configure_masks": fmt.Sprint(seqMasks)}
	viol := func(sig, msg string) { r.res.Violate("C15/"+sig, msg, what) }
	r.res.Eval()
	rec := &Rec{}
	plugin := e.New(rec)
	dialed := make(chan *rig.RawRuntime, 8)
	dial := func(string) (net.Conn, error) {
		a, b := net.Pipe()
		rr, err := rig.NewRawRuntime(b)
		if err != nil {
			return nil, err
		}
		dialed <- rr
		return a, nil
	}
	st, err := stub.New(plugin, stub.WithDialer(dial), stub.WithSocketPath("/nonexistent/verif"), stub.WithPluginName("gen"), stub.WithPluginIdx("42"), stub.WithOnClose(func() {}))
	if err != nil {
		viol("new-failed", err.Error())
		return
	}
	for i, m := range seqMasks {
		rec.mu.Lock()
		rec.CfgMask = api.EventMask(m)
		rec.mu.Unlock()
		startErr := make(chan error, 1)
		go func() { startErr <- st.Start(context.Background()) }()
		// the dialer runs inside Start
		rr, ok := await(dialed, 10*time.Second)
		if !ok {
			viol("no-registration", "the stub did not connect")
			return
		}
		if _, ok := await(rr.Registered, 10*time.Second); !ok {
			viol("no-registration", fmt.Sprintf("session %d: the stub did not register", i))
			rr.Close()
			return
		}
		ctx, cancel := context.WithTimeout(context.Background(), 10*time.Second)
		cfg, cerr := rr.Plugin.Configure(ctx, &api.ConfigureRequest{Config: "c", RuntimeName: "rt", RuntimeVersion: "v1", RegistrationTimeout: 5000, RequestTimeout: 2000})
		cancel()
		want := m
		if m == 0 {
			want = e.Mask
		}
		if m&^e.Mask != 0 {
			if cerr == nil {
				viol("bad-subscription-accepted", fmt.Sprintf("session %d: mask 0x%04x names unimplemented events but was accepted", i, m))
			}
			<-startErr
			rr.Close()
			continue
		}
		if cerr != nil {
			viol("reconfigure-rejected", fmt.Sprintf("session %d of the same stub: a legal configuration-time mask 0x%04x (implemented 0x%04x, earlier masks %v) was rejected: %v", i, m, e.Mask, seqMasks[:i], cerr))
			<-startErr
			rr.Close()
			continue
		}
		if int(cfg.Events) != want {
			viol("reconfigure-subscription-differs", fmt.Sprintf("session %d of the same stub: subscribed to 0x%04x, expected 0x%04x (implemented 0x%04x, earlier masks %v)", i, cfg.Events, want, e.Mask, seqMasks[:i]))
		}
		if serr, ok := await(startErr, 10*time.Second); !ok || serr != nil {
			viol("start-failed", fmt.Sprintf("session %d: Start did not succeed (returned=%v err=%v)", i, ok, serr))
			rr.Close()
			return
		}
		// every session's shutdown notification reaches the handler, once
		rec.Take()
		sctx, scancel := context.WithTimeout(context.Background(), 10*time.Second)
		_, serr := rr.Plugin.Shutdown(sctx, &api.Empty{})
		scancel()
		n := 0
		for _, c := range rec.Take() {
			if c.Handler == "Shutdown" {
				n++
			}
		}
		if serr != nil || n != 1 {
			viol("dispatch/Shutdown", fmt.Sprintf("session %d of the same stub: the shutdown request returned %v and the Shutdown handler ran %d times (want 1)", i, serr, n))
		}
		st.Stop()
		rr.Close()
	}
	r.res.Seen(fmt.Sprintf("reconfigure|0x%04x|%d", e.Mask, len(seqMasks)))
}

// resyncCase: the connection of ONE stub is lost after it accepted the first messages of a split
// synchronization; the stub is started again on a fresh connection and synchronized with a different
// state: the Synchronize handler must be invoked once, with exactly what the second session's
// messages carried.
func (r *runner) resyncCase(e TypeEntry) {
	r.seq++
	id := fmt.Sprintf("rs%04x.%d", e.Mask, r.seq)
	accepted := 1 + r.g.IntN(2)
	what := map[string]any{"implemented": fmt.Sprintf("0x%04x", e.Mask), "scenario": "connection lost during a split synchronization, same stub started again", "messages_accepted_before_loss": accepted}
	viol := func(sig, msg string) { r.res.Violate("C15/"+sig, msg, what) }
	r.res.Eval()
	rec := &Rec{}
	u := &api.ContainerUpdate{ContainerId: id + "-other"}
	u.SetLinuxCPUShares(uint64(1000 + r.seq))
	rec.Updates = []*api.ContainerUpdate{u}
	plugin := e.New(rec)
	dialed := make(chan *rig.RawRuntime, 8)
	dial := func(string) (net.Conn, error) {
		a, b := net.Pipe()
		rr, err := rig.NewRawRuntime(b)
		if err != nil {
			return nil, err
		}
		dialed <- rr
		return a, nil
	}
	closed := make(chan struct{}, 8)
	st, err := stub.New(plugin, stub.WithDialer(dial), stub.WithSocketPath("/nonexistent/verif"), stub.WithPluginName("gen"), stub.WithPluginIdx("42"),
		stub.WithOnClose(func() { closed <- struct{}{} }))
	if err != nil {
		viol("new-failed", err.Error())
		return
	}
	defer st.Stop()
	session := func(i int) (*rig.RawRuntime, bool) {
		startErr := make(chan error, 1)
		go func() { startErr <- st.Start(context.Background()) }()
		rr, ok := await(dialed, 10*time.Second)
		if !ok {
			viol("no-registration", fmt.Sprintf("session %d: the stub did not connect", i))
			return nil, false
		}
		if _, ok := await(rr.Registered, 10*time.Second); !ok {
			viol("no-registration", fmt.Sprintf("session %d: the stub did not register", i))
			rr.Close()
			return nil, false
		}
		ctx, cancel := context.WithTimeout(context.Background(), 10*time.Second)
		_, cerr := rr.Plugin.Configure(ctx, &api.ConfigureRequest{Config: "c", RuntimeName: "rt", RuntimeVersion: "v1", RegistrationTimeout: 5000, RequestTimeout: 2000})
		cancel()
		if cerr != nil {
			viol("configure-failed", fmt.Sprintf("session %d: %v", i, cerr))
			rr.Close()
			return nil, false
		}
		if serr, ok := await(startErr, 10*time.Second); !ok || serr != nil {
			viol("start-failed", fmt.Sprintf("session %d: Start did not succeed (returned=%v err=%v)", i, ok, serr))
			rr.Close()
			return nil, false
		}
		return rr, true
	}
	rr, ok := session(0)
	if !ok {
		return
	}
	ctx, cancel := context.WithTimeout(context.Background(), 20*time.Second)
	defer cancel()
	for m := 0; m < accepted; m++ {
		req := &api.SynchronizeRequest{More: true,
			Pods:       []*api.PodSandbox{{Id: fmt.Sprintf("%s-stale-p%d", id, m)}},
			Containers: []*api.Container{{Id: fmt.Sprintf("%s-stale-c%d", id, m)}, {Id: fmt.Sprintf("%s-stale-d%d", id, m)}}}
		if _, err := rr.Plugin.Synchronize(ctx, req); err != nil {
			viol("synchronize-failed", fmt.Sprintf("first session, message %d: %v", m+1, err))
			rr.Close()
			return
		}
	}
	rr.Close() // the connection is lost; nobody calls Stop
	if _, ok := await(closed, 10*time.Second); !ok {
		r.res.Note("%s: the stub did not notice the lost connection", id)
		return
	}
	if n := len(rec.Take()); n != 0 {
		viol("dispatch/Synchronize", fmt.Sprintf("the Synchronize handler ran %d times for a synchronization that never completed", n))
	}
	rr2, ok := session(1)
	if !ok {
		return
	}
	defer rr2.Close()
	req := &api.SynchronizeRequest{Pods: []*api.PodSandbox{{Id: id + "-new-p0"}, {Id: id + "-new-p1"}}, Containers: []*api.Container{{Id: id + "-new-c0"}}}
	rsp, err := rr2.Plugin.Synchronize(ctx, req)
	if err != nil {
		viol("synchronize-failed", fmt.Sprintf("second session: %v", err))
		return
	}
	calls := rec.Take()
	if len(calls) != 1 || calls[0].Handler != "Synchronize" {
		viol("dispatch/Synchronize", fmt.Sprintf("second session: the Synchronize handler must run exactly once; calls: %d", len(calls)))
		return
	}
	var got []string
	for _, p := range calls[0].SyncPods {
		got = append(got, p.GetId())
	}
	for _, c := range calls[0].SyncCtrs {
		got = append(got, c.GetId())
	}
	want := []string{id + "-new-p0", id + "-new-p1", id + "-new-c0"}
	if strings.Join(got, ",") != strings.Join(want, ",") {
		viol("arguments/Synchronize/after-lost-connection", fmt.Sprintf("the second session's synchronization carried %v, the handler received %v", want, got))
	}
	if len(rsp.GetUpdate()) != 1 || !proto.Equal(rsp.GetUpdate()[0], rec.Updates[0]) {
		viol("result/Synchronize", fmt.Sprintf("updates returned by the Synchronize handler reached the runtime changed: %v", rsp.GetUpdate()))
	}
	r.res.Seen(fmt.Sprintf("resync-after-loss|0x%04x|%d", e.Mask, accepted))
}
