package rig

import (
	"context"
	"net"
	"sync"
	"sync/atomic"

	"github.com/containerd/nri/pkg/api"
	"github.com/containerd/nri/pkg/net/multiplex"
	"github.com/containerd/ttrpc"
)

// RawRuntime speaks the runtime side of the wire protocol towards a stub, using only the public
// multiplexer and the generated ttRPC stubs.
type RawRuntime struct {
	Conn   net.Conn
	Mux    multiplex.Mux
	srv    *ttrpc.Server
	cli    *ttrpc.Client
	Plugin api.PluginService

	// OnRegister decides the answer to a registration (nil = accept).
	OnRegister func(*api.RegisterPluginRequest) error
	// OnUpdate handles unsolicited updates.
	OnUpdate func(*api.UpdateContainersRequest) (*api.UpdateContainersResponse, error)

	Registered chan *api.RegisterPluginRequest
	RegCount   atomic.Int32
	closedOnce sync.Once
	Closed     chan struct{}
}

// NewRawRuntime attaches to conn; both logical connections are opened at once so that no frame is lost.
func NewRawRuntime(conn net.Conn) (*RawRuntime, error) {
	r := &RawRuntime{Conn: conn, Registered: make(chan *api.RegisterPluginRequest, 4), Closed: make(chan struct{})}
	r.Mux = multiplex.Multiplex(conn)
	pc, err := r.Mux.Open(multiplex.PluginServiceConn)
	if err != nil {
		return nil, err
	}
	l, err := r.Mux.Listen(multiplex.RuntimeServiceConn)
	if err != nil {
		return nil, err
	}
	r.cli = ttrpc.NewClient(pc, ttrpc.WithOnClose(func() { r.closedOnce.Do(func() { close(r.Closed) }) }))
	r.Plugin = api.NewPluginClient(r.cli)
	srv, err := ttrpc.NewServer()
	if err != nil {
		return nil, err
	}
	r.srv = srv
	api.RegisterRuntimeService(srv, r)
	go srv.Serve(context.Background(), l)
	return r, nil
}

func (r *RawRuntime) RegisterPlugin(ctx context.Context, req *api.RegisterPluginRequest) (*api.Empty, error) {
	r.RegCount.Add(1)
	var err error
	if r.OnRegister != nil {
		err = r.OnRegister(req)
	}
	select {
	case r.Registered <- req:
	default:
	}
	return &api.Empty{}, err
}

func (r *RawRuntime) UpdateContainers(ctx context.Context, req *api.UpdateContainersRequest) (*api.UpdateContainersResponse, error) {
	if r.OnUpdate != nil {
		return r.OnUpdate(req)
	}
	return &api.UpdateContainersResponse{}, nil
}

func (r *RawRuntime) Close() {
	if r.cli != nil {
		r.cli.Close()
	}
	if r.srv != nil {
		r.srv.Close()
	}
	if r.Mux != nil {
		r.Mux.Close()
	}
}
