// Package rig holds the reusable arrangements of real NRI code plus harness-owned peers.
package rig

import (
	"context"
	"fmt"
	"io"
	"os"
	"path/filepath"
	"strings"
	"sync"
	"sync/atomic"
	"time"

	"github.com/containerd/nri/pkg/adaptation"
	"github.com/containerd/nri/pkg/api"
	nrilog "github.com/containerd/nri/pkg/log"
	"github.com/containerd/nri/pkg/stub"
	"github.com/sirupsen/logrus"
)

// ---------------------------------------------------------------------------
// logging capture

// LogCapture receives everything NRI logs through pkg/log.
type LogCapture struct {
	mu    sync.Mutex
	lines []string
	subs  []func(level, msg string)
	Echo  bool
}

var Log = &LogCapture{}

func (l *LogCapture) add(level, format string, args ...interface{}) {
	msg := fmt.Sprintf(format, args...)
	l.mu.Lock()
	if len(l.lines) < 20000 {
		l.lines = append(l.lines, level+" "+msg)
	}
	subs := l.subs
	l.mu.Unlock()
	for _, s := range subs {
		s(level, msg)
	}
	if l.Echo {
		fmt.Fprintf(os.Stderr, "[nri %s] %s\n", level, msg)
	}
}
func (l *LogCapture) Debugf(_ context.Context, f string, a ...interface{}) { l.add("D", f, a...) }
func (l *LogCapture) Infof(_ context.Context, f string, a ...interface{})  { l.add("I", f, a...) }
func (l *LogCapture) Warnf(_ context.Context, f string, a ...interface{})  { l.add("W", f, a...) }
func (l *LogCapture) Errorf(_ context.Context, f string, a ...interface{}) { l.add("E", f, a...) }

func (l *LogCapture) Subscribe(f func(level, msg string)) {
	l.mu.Lock()
	l.subs = append(l.subs, f)
	l.mu.Unlock()
}

// Grep returns captured lines containing s.
func (l *LogCapture) Grep(s string) []string {
	l.mu.Lock()
	defer l.mu.Unlock()
	var out []string
	for _, x := range l.lines {
		if strings.Contains(x, s) {
			out = append(out, x)
		}
	}
	return out
}

func (l *LogCapture) Reset() {
	l.mu.Lock()
	l.lines = nil
	l.mu.Unlock()
}

// QuietLogs routes NRI's logging into the capture and silences logrus (the stub logs there).
func QuietLogs() {
	logrus.SetOutput(io.Discard)
	logrus.SetLevel(logrus.PanicLevel)
	nrilog.Set(Log)
	if os.Getenv("VERIF_ECHO_LOG") != "" {
		Log.Echo = true
	}
}

// ---------------------------------------------------------------------------
// logical clock

var clock atomic.Int64

// Tick returns a new, strictly increasing logical time stamp.
func Tick() int64 { return clock.Add(1) }

// ---------------------------------------------------------------------------
// runtime side

// Runtime is a real adaptation.Adaptation with harness-owned callbacks.
type Runtime struct {
	A    *adaptation.Adaptation
	Sock string
	Dir  string

	mu   sync.Mutex
	pods []*api.PodSandbox
	ctrs []*api.Container

	// SyncFn, when set, replaces the default store-snapshotting sync function.
	SyncFn func(ctx context.Context, cb adaptation.SyncCB) error
	// SyncDone, when set, is called with the result of every sync callback.
	SyncDone func(updates []*api.ContainerUpdate, err error)
	// UpdateFn, when set, handles unsolicited updates.
	UpdateFn func(ctx context.Context, u []*api.ContainerUpdate) ([]*api.ContainerUpdate, error)
}

type RuntimeOpt func(*rtCfg)
type rtCfg struct {
	opts     []adaptation.Option
	noSocket bool
}

func WithAdaptationOptions(o ...adaptation.Option) RuntimeOpt {
	return func(c *rtCfg) { c.opts = append(c.opts, o...) }
}

// NewRuntime creates (but does not start) an Adaptation with its socket under dir.
func NewRuntime(dir string, ropts ...RuntimeOpt) (*Runtime, error) {
	cfg := &rtCfg{}
	for _, o := range ropts {
		o(cfg)
	}
	rt := &Runtime{Dir: dir, Sock: filepath.Join(dir, "nri.sock")}
	opts := []adaptation.Option{
		adaptation.WithSocketPath(rt.Sock),
		adaptation.WithPluginPath(filepath.Join(dir, "no-plugins")),
		adaptation.WithPluginConfigPath(filepath.Join(dir, "no-conf")),
	}
	opts = append(opts, cfg.opts...)
	a, err := adaptation.New("verif-rt", "0.0", rt.syncFn, rt.updateFn, opts...)
	if err != nil {
		return nil, err
	}
	rt.A = a
	return rt, nil
}

func (rt *Runtime) syncFn(ctx context.Context, cb adaptation.SyncCB) error {
	if rt.SyncFn != nil {
		return rt.SyncFn(ctx, cb)
	}
	rt.mu.Lock()
	pods := append([]*api.PodSandbox(nil), rt.pods...)
	ctrs := append([]*api.Container(nil), rt.ctrs...)
	rt.mu.Unlock()
	u, err := cb(ctx, pods, ctrs)
	if rt.SyncDone != nil {
		rt.SyncDone(u, err)
	}
	return err
}

func (rt *Runtime) updateFn(ctx context.Context, u []*api.ContainerUpdate) ([]*api.ContainerUpdate, error) {
	if rt.UpdateFn != nil {
		return rt.UpdateFn(ctx, u)
	}
	return nil, nil
}

func (rt *Runtime) SetState(pods []*api.PodSandbox, ctrs []*api.Container) {
	rt.mu.Lock()
	rt.pods, rt.ctrs = pods, ctrs
	rt.mu.Unlock()
}

func (rt *Runtime) AddContainer(c *api.Container) {
	rt.mu.Lock()
	rt.ctrs = append(rt.ctrs, c)
	rt.mu.Unlock()
}

func (rt *Runtime) Start() error { return rt.A.Start() }
func (rt *Runtime) Stop()        { rt.A.Stop() }

// ---------------------------------------------------------------------------
// scripted stub plugin

// Handlers are the scripted behaviours of a Plugin; nil entries are no-ops.
type Handlers struct {
	Configure   func(cfg, rt, ver string) (api.EventMask, error)
	Synchronize func(ctx context.Context, pods []*api.PodSandbox, ctrs []*api.Container) ([]*api.ContainerUpdate, error)
	Create      func(ctx context.Context, pod *api.PodSandbox, ctr *api.Container) (*api.ContainerAdjustment, []*api.ContainerUpdate, error)
	Update      func(ctx context.Context, pod *api.PodSandbox, ctr *api.Container, res *api.LinuxResources) ([]*api.ContainerUpdate, error)
	Stop        func(ctx context.Context, pod *api.PodSandbox, ctr *api.Container) ([]*api.ContainerUpdate, error)
	UpdatePod   func(ctx context.Context, pod *api.PodSandbox, over, res *api.LinuxResources) error
	// Event handles the nine pure notifications.
	Event func(ctx context.Context, e api.Event, pod *api.PodSandbox, ctr *api.Container) error
	// Any is called first for every lifecycle request/event (including Create/Update/Stop/UpdatePod).
	Any func(e api.Event, pod *api.PodSandbox, ctr *api.Container)
}

// Plugin is a plugin built on the real stub that implements every handler interface and
// subscribes through Configure.
type Plugin struct {
	Name, Idx string
	Mask      api.EventMask // 0 = everything the stub implements
	H         Handlers
	Stub      stub.Stub

	smu        sync.Mutex // guards the per-session channels below against Restart
	closedOnce sync.Once
	Closed     chan struct{}
	syncedOnce sync.Once
	Synced     chan struct{}
	SyncTick   atomic.Int64
	OnCloseN   atomic.Int32
}

func NewPlugin(name, idx string, mask api.EventMask, h Handlers) *Plugin {
	return &Plugin{Name: name, Idx: idx, Mask: mask, H: h,
		Closed: make(chan struct{}), Synced: make(chan struct{})}
}

// Connect creates the stub against the runtime's socket and starts it.
func (p *Plugin) Connect(sock string, extra ...stub.Option) error {
	opts := []stub.Option{
		stub.WithPluginName(p.Name),
		stub.WithPluginIdx(p.Idx),
		stub.WithSocketPath(sock),
		stub.WithOnClose(func() {
			p.OnCloseN.Add(1)
			p.smu.Lock()
			p.closedOnce.Do(func() { close(p.Closed) })
			p.smu.Unlock()
		}),
	}
	opts = append(opts, extra...)
	st, err := stub.New(p, opts...)
	if err != nil {
		return err
	}
	p.Stub = st
	return st.Start(context.Background())
}

// Restart starts the same stub instance again (after its connection was lost or it was stopped).
func (p *Plugin) Restart() error {
	p.smu.Lock()
	p.Closed = make(chan struct{})
	p.closedOnce = sync.Once{}
	p.Synced = make(chan struct{})
	p.syncedOnce = sync.Once{}
	p.smu.Unlock()
	return p.Stub.Start(context.Background())
}

// SyncedCh and ClosedCh return the current session's channels (Restart replaces them).
func (p *Plugin) SyncedCh() chan struct{} { p.smu.Lock(); defer p.smu.Unlock(); return p.Synced }
func (p *Plugin) ClosedCh() chan struct{} { p.smu.Lock(); defer p.smu.Unlock(); return p.Closed }

func (p *Plugin) StopStub() {
	if p.Stub != nil {
		p.Stub.Stop()
	}
}

// WaitSynced waits until the plugin's Synchronize handler has run.
func (p *Plugin) WaitSynced(d time.Duration) bool {
	select {
	case <-p.Synced:
		return true
	case <-time.After(d):
		return false
	}
}

func (p *Plugin) Configure(_ context.Context, cfg, rt, ver string) (api.EventMask, error) {
	if p.H.Configure != nil {
		return p.H.Configure(cfg, rt, ver)
	}
	return p.Mask, nil
}

func (p *Plugin) Synchronize(ctx context.Context, pods []*api.PodSandbox, ctrs []*api.Container) ([]*api.ContainerUpdate, error) {
	p.SyncTick.Store(Tick())
	defer func() {
		p.smu.Lock()
		p.syncedOnce.Do(func() { close(p.Synced) })
		p.smu.Unlock()
	}()
	if p.H.Synchronize != nil {
		return p.H.Synchronize(ctx, pods, ctrs)
	}
	return nil, nil
}

func (p *Plugin) any(e api.Event, pod *api.PodSandbox, ctr *api.Container) {
	if p.H.Any != nil {
		p.H.Any(e, pod, ctr)
	}
}

func (p *Plugin) event(ctx context.Context, e api.Event, pod *api.PodSandbox, ctr *api.Container) error {
	p.any(e, pod, ctr)
	if p.H.Event != nil {
		return p.H.Event(ctx, e, pod, ctr)
	}
	return nil
}

func (p *Plugin) RunPodSandbox(ctx context.Context, pod *api.PodSandbox) error {
	return p.event(ctx, api.Event_RUN_POD_SANDBOX, pod, nil)
}
func (p *Plugin) UpdatePodSandbox(ctx context.Context, pod *api.PodSandbox, over, res *api.LinuxResources) error {
	p.any(api.Event_UPDATE_POD_SANDBOX, pod, nil)
	if p.H.UpdatePod != nil {
		return p.H.UpdatePod(ctx, pod, over, res)
	}
	return nil
}
func (p *Plugin) PostUpdatePodSandbox(ctx context.Context, pod *api.PodSandbox) error {
	return p.event(ctx, api.Event_POST_UPDATE_POD_SANDBOX, pod, nil)
}
func (p *Plugin) StopPodSandbox(ctx context.Context, pod *api.PodSandbox) error {
	return p.event(ctx, api.Event_STOP_POD_SANDBOX, pod, nil)
}
func (p *Plugin) RemovePodSandbox(ctx context.Context, pod *api.PodSandbox) error {
	return p.event(ctx, api.Event_REMOVE_POD_SANDBOX, pod, nil)
}
func (p *Plugin) CreateContainer(ctx context.Context, pod *api.PodSandbox, ctr *api.Container) (*api.ContainerAdjustment, []*api.ContainerUpdate, error) {
	p.any(api.Event_CREATE_CONTAINER, pod, ctr)
	if p.H.Create != nil {
		return p.H.Create(ctx, pod, ctr)
	}
	return nil, nil, nil
}
func (p *Plugin) PostCreateContainer(ctx context.Context, pod *api.PodSandbox, ctr *api.Container) error {
	return p.event(ctx, api.Event_POST_CREATE_CONTAINER, pod, ctr)
}
func (p *Plugin) StartContainer(ctx context.Context, pod *api.PodSandbox, ctr *api.Container) error {
	return p.event(ctx, api.Event_START_CONTAINER, pod, ctr)
}
func (p *Plugin) PostStartContainer(ctx context.Context, pod *api.PodSandbox, ctr *api.Container) error {
	return p.event(ctx, api.Event_POST_START_CONTAINER, pod, ctr)
}
func (p *Plugin) UpdateContainer(ctx context.Context, pod *api.PodSandbox, ctr *api.Container, res *api.LinuxResources) ([]*api.ContainerUpdate, error) {
	p.any(api.Event_UPDATE_CONTAINER, pod, ctr)
	if p.H.Update != nil {
		return p.H.Update(ctx, pod, ctr, res)
	}
	return nil, nil
}
func (p *Plugin) PostUpdateContainer(ctx context.Context, pod *api.PodSandbox, ctr *api.Container) error {
	return p.event(ctx, api.Event_POST_UPDATE_CONTAINER, pod, ctr)
}
func (p *Plugin) StopContainer(ctx context.Context, pod *api.PodSandbox, ctr *api.Container) ([]*api.ContainerUpdate, error) {
	p.any(api.Event_STOP_CONTAINER, pod, ctr)
	if p.H.Stop != nil {
		return p.H.Stop(ctx, pod, ctr)
	}
	return nil, nil
}
func (p *Plugin) RemoveContainer(ctx context.Context, pod *api.PodSandbox, ctr *api.Container) error {
	return p.event(ctx, api.Event_REMOVE_CONTAINER, pod, ctr)
}

// ---------------------------------------------------------------------------
// helpers

// WaitActive sends warm-up RunPodSandbox events until every plugin in ps has seen one.
// The plugins' Any handler must call seen(pluginIdx, podID) for pod ids starting with "warmup".
func WaitActive(rt *Runtime, n int, seenCount func(podID string) int, d time.Duration) bool {
	deadline := time.Now().Add(d)
	for i := 0; time.Now().Before(deadline); i++ {
		id := fmt.Sprintf("warmup-%d", i)
		b := rt.A.BlockPluginSync()
		err := rt.A.RunPodSandbox(context.Background(), &api.StateChangeEvent{Pod: &api.PodSandbox{Id: id, Name: id}})
		b.Unblock()
		if err == nil && seenCount(id) >= n {
			return true
		}
		time.Sleep(2 * time.Millisecond)
	}
	return false
}
