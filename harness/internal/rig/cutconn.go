package rig

import (
	"errors"
	"net"
	"sync"
	"sync/atomic"
	"time"
)

// ErrCut is returned by a CutConn once its armed threshold has been reached.
var ErrCut = errors.New("verif: connection cut")

// CutConn wraps a net.Conn owned by the harness. It counts the bytes that crossed it in each
// direction and, when an armed threshold is reached, lets exactly the allowed prefix through and
// then closes the underlying connection in both directions (a permanent cut).
type CutConn struct {
	net.Conn
	mu        sync.Mutex
	written   int64
	read      int64
	cutWrite  int64 // cut when written would exceed this; <0 = never
	cutRead   int64
	cut       atomic.Bool
	transient bool
	faulted   atomic.Bool
	CutAt     atomic.Int64 // logical tick when the cut happened
	onCut     func()
	stall     atomic.Bool   // reads block until the connection is closed
	stallCut  time.Duration // when the read threshold is reached: stop reading for this long, then cut
	gone      chan struct{}
	goneOnce  sync.Once
	// StallWriteAfter, if >= 0, makes Write block (until the conn is closed) once that many bytes were written.
	WriteLog func(n int)
}

func NewCutConn(c net.Conn) *CutConn {
	return &CutConn{Conn: c, cutWrite: -1, cutRead: -1, gone: make(chan struct{})}
}

// ArmWrite cuts the connection after exactly n more... absolute bytes written through this wrapper.
func (c *CutConn) ArmWrite(n int64) { c.mu.Lock(); c.cutWrite = n; c.mu.Unlock() }

// ArmRead cuts the connection after exactly n bytes were delivered to the reader.
func (c *CutConn) ArmRead(n int64) { c.mu.Lock(); c.cutRead = n; c.mu.Unlock() }

func (c *CutConn) OnCut(f func()) { c.onCut = f }

// Transient makes the armed write threshold a transient fault: the write that crosses it is
// truncated there and returns an error, but the connection stays open and later writes pass.
func (c *CutConn) Transient() { c.mu.Lock(); c.transient = true; c.mu.Unlock() }

// Faulted reports whether the transient write fault has happened.
func (c *CutConn) Faulted() bool { return c.faulted.Load() }

// ErrTransient is returned by the one truncated write of a transient fault.
var ErrTransient = errors.New("verif: transient write failure (short write)")

func (c *CutConn) Written() int64 { c.mu.Lock(); defer c.mu.Unlock(); return c.written }
func (c *CutConn) ReadN() int64   { c.mu.Lock(); defer c.mu.Unlock(); return c.read }
func (c *CutConn) WasCut() bool   { return c.cut.Load() }

// StallReads makes every Read block until the connection is closed (a peer that stops reading).
func (c *CutConn) StallReads() {
	c.stall.Store(true)
	// kick a Read that is already waiting in the kernel; whatever it returns is discarded (see Read)
	c.Conn.SetReadDeadline(time.Now())
}

// StallOnCut: once the armed read threshold is reached, stop reading for d, then cut.
func (c *CutConn) StallOnCut(d time.Duration) { c.mu.Lock(); c.stallCut = d; c.mu.Unlock() }

func (c *CutConn) doCut() {
	if c.cut.CompareAndSwap(false, true) {
		c.CutAt.Store(Tick())
		c.goneOnce.Do(func() { close(c.gone) })
		c.Conn.Close()
		if c.onCut != nil {
			c.onCut()
		}
	}
}

// CutNow cuts immediately.
func (c *CutConn) CutNow() { c.doCut() }

func (c *CutConn) Write(b []byte) (int, error) {
	if c.cut.Load() {
		return 0, ErrCut
	}
	c.mu.Lock()
	allowed := int64(len(b))
	cutting := false
	if c.cutWrite >= 0 && c.written+allowed > c.cutWrite {
		allowed = c.cutWrite - c.written
		if allowed < 0 {
			allowed = 0
		}
		cutting = true
		if c.transient {
			// a transient fault is a *short* write: at least one byte, never all of them
			if allowed == 0 {
				allowed = 1
			}
			if allowed >= int64(len(b)) {
				// cannot be short: let it pass, the next write is hit instead
				allowed, cutting = int64(len(b)), false
				c.cutWrite = c.written + allowed
			}
		}
	}
	c.mu.Unlock()
	n := 0
	var err error
	if allowed > 0 {
		n, err = c.Conn.Write(b[:allowed])
	} else if !cutting {
		n, err = c.Conn.Write(b) // zero-length writes pass through
	}
	c.mu.Lock()
	c.written += int64(n)
	c.mu.Unlock()
	if cutting {
		c.mu.Lock()
		tr := c.transient
		if tr {
			c.cutWrite = -1
		}
		c.mu.Unlock()
		if tr {
			c.faulted.Store(true)
			return n, ErrTransient
		}
		c.doCut()
		return n, ErrCut
	}
	return n, err
}

func (c *CutConn) Read(b []byte) (int, error) {
	if c.cut.Load() {
		return 0, ErrCut
	}
	if c.stall.Load() {
		<-c.gone
		return 0, ErrCut
	}
	c.mu.Lock()
	stallCut := c.stallCut
	limit := int64(len(b))
	cutting := false
	if c.cutRead >= 0 {
		left := c.cutRead - c.read
		if left <= 0 {
			cutting = true
			limit = 0
		} else if left < limit {
			limit = left
		}
	}
	c.mu.Unlock()
	if cutting {
		if stallCut > 0 {
			select {
			case <-time.After(stallCut):
			case <-c.gone:
			}
		}
		c.doCut()
		return 0, ErrCut
	}
	n, err := c.Conn.Read(b[:limit])
	if c.stall.Load() {
		// the peer has stopped reading: nothing read from now on is delivered
		<-c.gone
		return 0, ErrCut
	}
	c.mu.Lock()
	c.read += int64(n)
	hit := c.cutRead >= 0 && c.read >= c.cutRead
	c.mu.Unlock()
	if hit && err == nil && stallCut == 0 {
		// the allowed prefix has been delivered; the next Read observes the cut
		c.doCut()
	}
	return n, err
}

func (c *CutConn) Close() error {
	c.goneOnce.Do(func() { close(c.gone) })
	return c.Conn.Close()
}

// ---------------------------------------------------------------------------
// bounded-wait helper

// Await waits for done. It returns "ok", "slow" (later than nominal) or "hang" (not within hard).
func Await(done <-chan struct{}, nominal, hard time.Duration) string {
	t0 := time.Now()
	select {
	case <-done:
		if time.Since(t0) > nominal {
			return "slow"
		}
		return "ok"
	case <-time.After(hard):
	}
	// hang rule: still not done one second later
	select {
	case <-done:
		return "slow"
	case <-time.After(time.Second):
		return "hang"
	}
}
