package rig

import (
	"context"
	"fmt"
	"net"
	"sync"
	"sync/atomic"
	"time"

	"github.com/containerd/nri/pkg/api"
	"github.com/containerd/nri/pkg/net/multiplex"
	"github.com/containerd/ttrpc"
)

// RawPlugin speaks the plugin side of the wire protocol without the stub: only the public
// multiplexer and the generated ttRPC client/server stubs are used. Every behaviour is scriptable.
type RawPlugin struct {
	Name, Idx string
	Events    int32 // answer to Configure

	// scripted behaviours; nil = benign default
	OnConfigure   func(ctx context.Context, req *api.ConfigureRequest) (*api.ConfigureResponse, error)
	OnSynchronize func(ctx context.Context, req *api.SynchronizeRequest) (*api.SynchronizeResponse, error)
	OnCreate      func(ctx context.Context, req *api.CreateContainerRequest) (*api.CreateContainerResponse, error)
	OnUpdate      func(ctx context.Context, req *api.UpdateContainerRequest) (*api.UpdateContainerResponse, error)
	OnStop        func(ctx context.Context, req *api.StopContainerRequest) (*api.StopContainerResponse, error)
	OnUpdatePod   func(ctx context.Context, req *api.UpdatePodSandboxRequest) (*api.UpdatePodSandboxResponse, error)
	OnStateChange func(ctx context.Context, req *api.StateChangeEvent) (*api.Empty, error)
	// Any is called first for every request after Configure (Synchronize included).
	Any func(kind string)

	Conn    net.Conn // the connection handed to the multiplexer (possibly a CutConn)
	Mux     multiplex.Mux
	srv     *ttrpc.Server
	cli     *ttrpc.Client
	Runtime api.RuntimeService

	Configured  atomic.Int32
	SyncChunks  atomic.Int32
	Requests    atomic.Int32 // lifecycle requests/events received
	SyncTick    atomic.Int64
	LastReqTick atomic.Int64
	closedOnce  sync.Once
	Closed      chan struct{}
	mu          sync.Mutex
	Chunks      []SyncChunk
}

type SyncChunk struct {
	Pods, Containers int
	More             bool
}

func NewRawPlugin(name, idx string, events int32) *RawPlugin {
	return &RawPlugin{Name: name, Idx: idx, Events: events, Closed: make(chan struct{})}
}

// Attach sets up multiplexing and the plugin service on conn (no registration yet).
func (p *RawPlugin) Attach(conn net.Conn) error {
	p.Conn = conn
	p.Mux = multiplex.Multiplex(conn)
	l, err := p.Mux.Listen(multiplex.PluginServiceConn)
	if err != nil {
		return err
	}
	srv, err := ttrpc.NewServer()
	if err != nil {
		return err
	}
	p.srv = srv
	api.RegisterPluginService(srv, p)
	go srv.Serve(context.Background(), l)
	cc, err := p.Mux.Open(multiplex.RuntimeServiceConn)
	if err != nil {
		return err
	}
	p.cli = ttrpc.NewClient(cc, ttrpc.WithOnClose(func() {
		p.closedOnce.Do(func() { close(p.Closed) })
	}))
	p.Runtime = api.NewRuntimeClient(p.cli)
	return nil
}

// Dial connects to the runtime's socket, optionally wrapping the connection.
func (p *RawPlugin) Dial(sock string, wrap func(net.Conn) net.Conn) error {
	c, err := net.Dial("unix", sock)
	if err != nil {
		return err
	}
	if wrap != nil {
		c = wrap(c)
	}
	return p.Attach(c)
}

// Register sends the registration request.
func (p *RawPlugin) Register(timeout time.Duration) error {
	ctx, cancel := context.WithTimeout(context.Background(), timeout)
	defer cancel()
	_, err := p.Runtime.RegisterPlugin(ctx, &api.RegisterPluginRequest{PluginName: p.Name, PluginIdx: p.Idx})
	return err
}

func (p *RawPlugin) Close() {
	if p.cli != nil {
		p.cli.Close()
	}
	if p.srv != nil {
		p.srv.Close()
	}
	if p.Mux != nil {
		p.Mux.Close()
	}
}

func (p *RawPlugin) any(kind string) {
	if kind != "Synchronize" {
		p.Requests.Add(1)
		p.LastReqTick.Store(Tick())
	}
	if p.Any != nil {
		p.Any(kind)
	}
}

func (p *RawPlugin) Configure(ctx context.Context, req *api.ConfigureRequest) (*api.ConfigureResponse, error) {
	p.Configured.Add(1)
	if p.OnConfigure != nil {
		return p.OnConfigure(ctx, req)
	}
	return &api.ConfigureResponse{Events: p.Events}, nil
}

func (p *RawPlugin) Synchronize(ctx context.Context, req *api.SynchronizeRequest) (*api.SynchronizeResponse, error) {
	p.SyncChunks.Add(1)
	p.SyncTick.Store(Tick())
	p.mu.Lock()
	p.Chunks = append(p.Chunks, SyncChunk{len(req.Pods), len(req.Containers), req.More})
	p.mu.Unlock()
	p.any("Synchronize")
	if p.OnSynchronize != nil {
		return p.OnSynchronize(ctx, req)
	}
	return &api.SynchronizeResponse{More: req.More}, nil
}

func (p *RawPlugin) ChunkLog() []SyncChunk {
	p.mu.Lock()
	defer p.mu.Unlock()
	return append([]SyncChunk(nil), p.Chunks...)
}

func (p *RawPlugin) Shutdown(ctx context.Context, req *api.Empty) (*api.Empty, error) {
	return &api.Empty{}, nil
}

func (p *RawPlugin) CreateContainer(ctx context.Context, req *api.CreateContainerRequest) (*api.CreateContainerResponse, error) {
	p.any("CreateContainer")
	if p.OnCreate != nil {
		return p.OnCreate(ctx, req)
	}
	return &api.CreateContainerResponse{}, nil
}

func (p *RawPlugin) UpdateContainer(ctx context.Context, req *api.UpdateContainerRequest) (*api.UpdateContainerResponse, error) {
	p.any("UpdateContainer")
	if p.OnUpdate != nil {
		return p.OnUpdate(ctx, req)
	}
	return &api.UpdateContainerResponse{}, nil
}

func (p *RawPlugin) StopContainer(ctx context.Context, req *api.StopContainerRequest) (*api.StopContainerResponse, error) {
	p.any("StopContainer")
	if p.OnStop != nil {
		return p.OnStop(ctx, req)
	}
	return &api.StopContainerResponse{}, nil
}

func (p *RawPlugin) UpdatePodSandbox(ctx context.Context, req *api.UpdatePodSandboxRequest) (*api.UpdatePodSandboxResponse, error) {
	p.any("UpdatePodSandbox")
	if p.OnUpdatePod != nil {
		return p.OnUpdatePod(ctx, req)
	}
	return &api.UpdatePodSandboxResponse{}, nil
}

func (p *RawPlugin) StateChange(ctx context.Context, req *api.StateChangeEvent) (*api.Empty, error) {
	p.any(fmt.Sprintf("StateChange/%v", req.Event))
	if p.OnStateChange != nil {
		return p.OnStateChange(ctx, req)
	}
	return &api.Empty{}, nil
}
