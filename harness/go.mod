module nriverif

go 1.22.0

require (
	github.com/anishathalye/porcupine v1.3.0
	github.com/containerd/nri v0.0.0
	github.com/containerd/ttrpc v1.2.7
	github.com/opencontainers/runtime-spec v1.1.0
	github.com/opencontainers/runtime-tools v0.9.0
	github.com/sirupsen/logrus v1.9.3
	google.golang.org/grpc v1.57.1
	google.golang.org/protobuf v1.34.1
	sigs.k8s.io/yaml v1.3.0
)

require (
	github.com/containerd/log v0.1.0 // indirect
	github.com/golang/protobuf v1.5.3 // indirect
	github.com/knqyf263/go-plugin v0.8.1-0.20240827022226-114c6257e441 // indirect
	github.com/moby/sys/mountinfo v0.6.2 // indirect
	github.com/syndtr/gocapability v0.0.0-20200815063812-42c35b437635 // indirect
	github.com/tetratelabs/wazero v1.9.0 // indirect
	golang.org/x/sys v0.21.0 // indirect
	google.golang.org/genproto/googleapis/rpc v0.0.0-20230731190214-cbb8c96f2d6d // indirect
	gopkg.in/yaml.v2 v2.4.0 // indirect
)

replace github.com/containerd/nri => /repo

replace github.com/opencontainers/runtime-tools v0.9.0 => github.com/opencontainers/runtime-tools v0.0.0-20221026201742-946c877fa809
