// probe is launched by NRI as a pre-installed plugin (C18). It reports what it was given — environment,
// arguments, open descriptors — before doing any Go I/O, then behaves as a normal stub-based plugin.
// Its behaviour is selected by its own name:
//
//	...exitnow...   exit at once, before connecting
//	...noreg...     never register
//	...syncfail...  fail the Synchronize request
//	...dielater...  register, synchronize, then exit on the first event
//	...dropidle...  a healthy plugin whose connection goes away while the runtime is idle; the process stays
//	...stubborn...  a healthy plugin that does not exit when its connection is closed (syncfail behaves so, too)
//	...cfgfail...   registers, then fails its configuration; does not exit on its own either
//	...reidx...     a healthy plugin that registers as 90-renamed whatever its file is called
//	...dieafter...  handles its first creation request, then exits between requests
//
// Every probe returns one update, for the container "syncupd-<its file name>", from Synchronize and
// reports the state it was given (counts, first and last ids, a hash of all ids in order).
package main

import (
	"context"
	"encoding/json"
	"fmt"
	"hash/fnv"
	"os"
	"os/signal"
	"path/filepath"
	"strings"
	"syscall"
	"time"

	"nriverif/internal/earlyfd"

	"github.com/containerd/nri/pkg/api"
	"github.com/containerd/nri/pkg/stub"
	"github.com/sirupsen/logrus"
)

type fdInfo struct {
	FD   int    `json:"fd"`
	Link string `json:"link"`
}

type report struct {
	Base string   `json:"base"`
	Pid  int      `json:"pid"`
	Args []string `json:"args"`
	Env  []string `json:"env"`
	FDs  []fdInfo `json:"fds"`
}

var (
	startFDs []fdInfo
	outDir   string
	base     string
)

func init() {
	for _, f := range earlyfd.AtStart {
		startFDs = append(startFDs, fdInfo{FD: f.FD, Link: f.Link})
	}
}

func write(name string, v any) {
	b, _ := json.Marshal(v)
	tmp := filepath.Join(outDir, "."+name+".tmp")
	os.WriteFile(tmp, b, 0o644)
	os.Rename(tmp, filepath.Join(outDir, name))
}

func appendLine(name, line string) {
	f, err := os.OpenFile(filepath.Join(outDir, name), os.O_CREATE|os.O_WRONLY|os.O_APPEND, 0o644)
	if err != nil {
		return
	}
	f.WriteString(line + "\n")
	f.Close()
}

var theStub stub.Stub

type plugin struct{}

func (plugin) Configure(_ context.Context, config, runtime, version string) (api.EventMask, error) {
	if strings.Contains(base, "cfgfail") {
		appendLine("cfgfail.log", base)
		return 0, fmt.Errorf("probe %s refuses its configuration", base)
	}
	write(fmt.Sprintf("config.%s.%d", base, os.Getpid()), map[string]string{"config": config, "runtime": runtime, "version": version})
	return 0, nil
}

func (plugin) Synchronize(_ context.Context, pods []*api.PodSandbox, ctrs []*api.Container) ([]*api.ContainerUpdate, error) {
	if strings.Contains(base, "syncfail") {
		return nil, fmt.Errorf("probe %s refuses to synchronize", base)
	}
	h := fnv.New64a()
	for _, p := range pods {
		fmt.Fprintf(h, "p:%s;", p.GetId())
	}
	for _, c := range ctrs {
		fmt.Fprintf(h, "c:%s;", c.GetId())
	}
	write(fmt.Sprintf("syncstate.%s.%d", base, os.Getpid()), map[string]any{"pods": len(pods), "containers": len(ctrs), "idhash": fmt.Sprintf("%x", h.Sum64())})
	appendLine("synced.log", base)
	upd := &api.ContainerUpdate{ContainerId: "syncupd-" + base}
	upd.SetLinuxCPUShares(uint64(os.Getpid()))
	if strings.Contains(base, "dropidle") {
		// a while after a successful start, while the runtime is idle, the connection goes away; the
		// process itself stays around
		go func() {
			time.Sleep(300 * time.Millisecond)
			theStub.Stop()
			appendLine("dropped.log", base)
		}()
	}
	return []*api.ContainerUpdate{upd}, nil
}

func (plugin) CreateContainer(_ context.Context, _ *api.PodSandbox, c *api.Container) (*api.ContainerAdjustment, []*api.ContainerUpdate, error) {
	appendLine("order."+c.GetId()+".log", fmt.Sprintf("%d %s", time.Now().UnixNano(), base))
	if strings.Contains(base, "dielater") {
		os.Exit(3)
	}
	if strings.Contains(base, "dieafter") {
		// answers this request properly and is gone a moment later, between two requests
		go func() { time.Sleep(40 * time.Millisecond); os.Exit(4) }()
	}
	a := &api.ContainerAdjustment{}
	a.AddAnnotation("probe."+base, c.GetId())
	return a, nil, nil
}

func (plugin) StopContainer(_ context.Context, _ *api.PodSandbox, c *api.Container) ([]*api.ContainerUpdate, error) {
	appendLine("stoporder."+c.GetId()+".log", fmt.Sprintf("%d %s", time.Now().UnixNano(), base))
	return nil, nil
}

// staysAround: this probe ignores the loss of its connection: only a kill gets rid of it
func staysAround() bool {
	for _, m := range []string{"syncfail", "stubborn", "dropidle", "cfgfail"} {
		if strings.Contains(base, m) {
			return true
		}
	}
	return false
}

func main() {
	logrus.SetLevel(logrus.PanicLevel)
	exe := os.Args[0]
	base = filepath.Base(exe)
	outDir = filepath.Join(filepath.Dir(filepath.Dir(exe)), "reports")
	write(fmt.Sprintf("report.%s.%d.json", base, os.Getpid()), report{Base: base, Pid: os.Getpid(), Args: os.Args, Env: os.Environ(), FDs: startFDs})
	switch {
	case strings.Contains(base, "exitnow"):
		os.Exit(7)
	case strings.Contains(base, "noreg"):
		time.Sleep(60 * time.Second)
		os.Exit(8)
	}
	if staysAround() {
		// nothing short of a kill removes this one
		signal.Ignore(syscall.SIGTERM, syscall.SIGINT, syscall.SIGHUP)
	}
	var extra []stub.Option
	if strings.Contains(base, "reidx") {
		// registers under another index and name than the file it was launched from
		// (the stub refuses to override what the environment says, so the environment is cleared first)
		os.Unsetenv("NRI_PLUGIN_IDX")
		os.Unsetenv("NRI_PLUGIN_NAME")
		extra = append(extra, stub.WithPluginIdx("90"), stub.WithPluginName("renamed"))
	}
	st, err := stub.New(plugin{}, append(extra, stub.WithOnClose(func() {
		if staysAround() {
			// ignores the loss of its connection: only a kill gets rid of it
			time.Sleep(120 * time.Second)
		}
		os.Exit(0)
	}))...)
	if err != nil {
		appendLine("errors.log", base+": stub.New: "+err.Error())
		os.Exit(9)
	}
	theStub = st
	err = st.Run(context.Background())
	if staysAround() {
		time.Sleep(120 * time.Second) // does not go away on its own
	}
	if err != nil {
		appendLine("errors.log", base+": run: "+err.Error())
		os.Exit(10)
	}
}
