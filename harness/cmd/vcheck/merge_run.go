package main

// Shared runner for C01–C05: real Adaptation + scripted stub plugins; the same executions feed
// five oracles, each check reports only its own.

import (
	"context"
	"encoding/json"
	"fmt"
	"hash/fnv"
	"math/rand/v2"
	"os"
	"regexp"
	"sort"
	"strings"
	"sync"
	"time"

	"nriverif/internal/ev"
	"nriverif/internal/rig"

	"github.com/containerd/nri/pkg/adaptation"
	"github.com/containerd/nri/pkg/api"
	xgen "github.com/containerd/nri/pkg/runtime-tools/generate"
	rspec "github.com/opencontainers/runtime-spec/specs-go"
	rgen "github.com/opencontainers/runtime-tools/generate"
	"google.golang.org/protobuf/proto"
)

// mObs is what was observed for one case.
type mObs struct {
	mu       sync.Mutex
	Err      error
	Create   *api.CreateContainerResponse
	Update   *api.UpdateContainerResponse
	Stop     *api.StopContainerResponse
	Views    map[int]*api.Container
	ResViews map[int]*api.LinuxResources
	Invoked  map[int]int
	Foreign  []string
}

type mRun struct {
	c   *MCase
	obs *mObs
}

type mergeRig struct {
	rt      *rig.Runtime
	plugins []*rig.Plugin // in index order; last one is the sentinel
	n       int           // scripted plugins (without sentinel)
	cases   sync.Map      // container id -> *mRun
	warm    sync.Map      // pod id -> *int32 counter
	warmMu  sync.Mutex
	warmCnt map[string]int
}

func newMergeRig(dir string, n int, rng *rand.Rand, twin bool) (*mergeRig, error) {
	adaptation.SetPluginRequestTimeout(60 * time.Second)
	adaptation.SetPluginRegistrationTimeout(60 * time.Second)
	rt, err := rig.NewRuntime(dir)
	if err != nil {
		return nil, err
	}
	if err := rt.Start(); err != nil {
		return nil, err
	}
	m := &mergeRig{rt: rt, n: n, warmCnt: map[string]int{}}
	// distinct random indices 00..98, sentinel 99
	perm := rng.Perm(99)[:n]
	if n >= 2 && !twin {
		// always one index that is not a valid octal numeral (08, 09) behind a smaller one
		perm[0], perm[1] = rng.IntN(8), 8+rng.IntN(2)
		for i := 2; i < n; i++ {
			for perm[i] <= 9 {
				perm[i] = 10 + rng.IntN(89)
			}
		}
		for i := 2; i < n; i++ { // keep them distinct
			for j := 2; j < i; j++ {
				if perm[i] == perm[j] {
					perm[i] = 10 + (perm[i]-9)%89
					j = 1
				}
			}
		}
	}
	sort.Ints(perm)
	for pos := 0; pos <= n; pos++ {
		idx := "99"
		if pos < n {
			idx = fmt.Sprintf("%02d", perm[pos])
		}
		pos := pos
		name := fmt.Sprintf("p%d", pos)
		if twin && pos < n {
			// distinct plugin instances registered under one and the same index and name
			idx, name = "05", "twin"
		}
		p := rig.NewPlugin(name, idx, 0, rig.Handlers{})
		p.H.Any = func(e api.Event, pod *api.PodSandbox, ctr *api.Container) {
			if pod != nil && strings.HasPrefix(pod.Id, "warmup") {
				m.warmMu.Lock()
				m.warmCnt[pod.Id]++
				m.warmMu.Unlock()
			}
		}
		p.H.Create = func(_ context.Context, pod *api.PodSandbox, ctr *api.Container) (*api.ContainerAdjustment, []*api.ContainerUpdate, error) {
			r := m.lookup(ctr.GetId())
			if r == nil {
				return nil, nil, nil
			}
			r.obs.mu.Lock()
			r.obs.Views[pos] = proto.Clone(ctr).(*api.Container)
			r.obs.Invoked[pos]++
			r.obs.mu.Unlock()
			if pos >= len(r.c.Resp) {
				return nil, nil, nil
			}
			pr := r.c.Resp[pos]
			var adj *api.ContainerAdjustment
			if pr.Adjust != nil {
				adj = proto.Clone(pr.Adjust).(*api.ContainerAdjustment)
			}
			return adj, cloneUpdates(pr.Updates), nil
		}
		p.H.Update = func(_ context.Context, pod *api.PodSandbox, ctr *api.Container, res *api.LinuxResources) ([]*api.ContainerUpdate, error) {
			r := m.lookup(ctr.GetId())
			if r == nil {
				return nil, nil
			}
			r.obs.mu.Lock()
			if res != nil {
				r.obs.ResViews[pos] = proto.Clone(res).(*api.LinuxResources)
			} else {
				r.obs.ResViews[pos] = nil
			}
			r.obs.Invoked[pos]++
			r.obs.mu.Unlock()
			if pos >= len(r.c.Resp) {
				return nil, nil
			}
			return cloneUpdates(r.c.Resp[pos].Updates), nil
		}
		p.H.Stop = func(_ context.Context, pod *api.PodSandbox, ctr *api.Container) ([]*api.ContainerUpdate, error) {
			r := m.lookup(ctr.GetId())
			if r == nil {
				return nil, nil
			}
			r.obs.mu.Lock()
			r.obs.Invoked[pos]++
			r.obs.mu.Unlock()
			if pos >= len(r.c.Resp) {
				return nil, nil
			}
			return cloneUpdates(r.c.Resp[pos].Updates), nil
		}
		m.plugins = append(m.plugins, p)
	}
	// shuffled registration order
	order := rng.Perm(n + 1)
	for _, i := range order {
		if err := m.plugins[i].Connect(rt.Sock); err != nil {
			return nil, fmt.Errorf("plugin %d connect: %w", i, err)
		}
	}
	ok := rig.WaitActive(rt, n+1, func(id string) int {
		m.warmMu.Lock()
		defer m.warmMu.Unlock()
		return m.warmCnt[id]
	}, 30*time.Second)
	if !ok {
		return nil, fmt.Errorf("plugins did not become active")
	}
	return m, nil
}

func (m *mergeRig) lookup(id string) *mRun {
	v, ok := m.cases.Load(id)
	if !ok {
		return nil
	}
	return v.(*mRun)
}

func (m *mergeRig) close() {
	m.rt.Stop()
	for _, p := range m.plugins {
		p.StopStub()
	}
}

func cloneUpdates(u []*api.ContainerUpdate) []*api.ContainerUpdate {
	if u == nil {
		return nil
	}
	o := make([]*api.ContainerUpdate, len(u))
	for i, x := range u {
		o[i] = proto.Clone(x).(*api.ContainerUpdate)
	}
	return o
}

// exec runs one case through the real Adaptation.
func (m *mergeRig) exec(c *MCase) *mObs {
	obs := &mObs{Views: map[int]*api.Container{}, ResViews: map[int]*api.LinuxResources{}, Invoked: map[int]int{}}
	m.cases.Store(c.ID, &mRun{c: c, obs: obs})
	defer m.cases.Delete(c.ID)
	ctx := context.Background()
	b := m.rt.A.BlockPluginSync()
	defer b.Unblock()
	pod := proto.Clone(c.Pod).(*api.PodSandbox)
	ctr := proto.Clone(c.Ctr).(*api.Container)
	switch c.Kind {
	case "create":
		obs.Create, obs.Err = m.rt.A.CreateContainer(ctx, &api.CreateContainerRequest{Pod: pod, Container: ctr})
	case "update":
		var res *api.LinuxResources
		if c.Res != nil {
			res = proto.Clone(c.Res).(*api.LinuxResources)
		}
		obs.Update, obs.Err = m.rt.A.UpdateContainer(ctx, &api.UpdateContainerRequest{Pod: pod, Container: ctr, LinuxResources: res})
	case "stop":
		obs.Stop, obs.Err = m.rt.A.StopContainer(ctx, &api.StopContainerRequest{Pod: pod, Container: ctr})
	}
	return obs
}

// ---------------------------------------------------------------------------
// applying adjustments with the project's own generator

func cloneSpec(s *rspec.Spec) *rspec.Spec {
	b, _ := json.Marshal(s)
	o := &rspec.Spec{}
	json.Unmarshal(b, o)
	return o
}

func hashName(s string) uint16 {
	h := fnv.New32a()
	h.Write([]byte(s))
	return uint16(h.Sum32()%60000) + 1
}

func newGen(s *rspec.Spec) *xgen.Generator {
	g := rgen.NewFromSpec(s)
	return xgen.SpecGenerator(&g,
		xgen.WithBlockIOResolver(func(n string) (*rspec.LinuxBlockIO, error) {
			w := hashName(n)
			return &rspec.LinuxBlockIO{Weight: &w}, nil
		}),
		xgen.WithRdtResolver(func(n string) (*rspec.LinuxIntelRdt, error) {
			return &rspec.LinuxIntelRdt{ClosID: n}, nil
		}),
		xgen.WithCDIDeviceInjector(func(sp *rspec.Spec, names []string) error {
			if sp.Annotations == nil {
				sp.Annotations = map[string]string{}
			}
			for _, n := range names {
				sp.Annotations["verif.cdi"] += n + ";"
			}
			// one call per adjustment with all its names: a real injector resolves them together (shared vendor
			// edits once, all or nothing)
			sp.Annotations["verif.cdi"] += "|"
			// like a real CDI spec, the injection adds a mount of its own (once)
			has := false
			for _, m := range sp.Mounts {
				has = has || m.Destination == "/verif-cdi"
			}
			if !has && len(names) > 0 {
				sp.Mounts = append(sp.Mounts, rspec.Mount{Destination: "/verif-cdi", Type: "tmpfs", Source: "cdi"})
			}
			return nil
		}),
	)
}

// applyAdjust applies adj to a deep copy of s with the project's generator.
func applyAdjust(s *rspec.Spec, adjs ...*api.ContainerAdjustment) (*rspec.Spec, error) {
	sp := cloneSpec(s)
	for _, a := range adjs {
		if a == nil {
			continue
		}
		g := newGen(sp)
		if err := g.Adjust(a); err != nil {
			return nil, err
		}
		sp = g.Config
	}
	return sp, nil
}

// pluginAdjAsSent interprets a plugin's own adjustment per the documented protocol before it
// is applied on its own: a leading "" in args means "replace".
func pluginAdjAsSent(a *api.ContainerAdjustment) *api.ContainerAdjustment {
	if a == nil {
		return nil
	}
	o := proto.Clone(a).(*api.ContainerAdjustment)
	if len(o.Args) > 0 && o.Args[0] == "" {
		o.Args = o.Args[1:]
	}
	return o
}

// viewOfSpec canonicalises an OCI spec into the same shape as viewOfContainer.
func viewOfSpec(s *rspec.Spec) *CView {
	v := newCView()
	for k, x := range s.Annotations {
		if k == "verif.cdi" {
			x = strings.ReplaceAll(x, "|", "") // the harness injector's call separators are C13's business only
		}
		v.Ann[k] = x
	}
	if s.Process != nil {
		for _, e := range s.Process.Env {
			k, x := splitEnv(e)
			if _, ok := v.Env[k]; ok {
				v.EnvDup = append(v.EnvDup, k)
			}
			v.Env[k] = x
		}
		v.Args = append([]string(nil), s.Process.Args...)
		for _, l := range s.Process.Rlimits {
			v.Rlimits = append(v.Rlimits, fmt.Sprintf("%s:%d:%d", l.Type, l.Hard, l.Soft))
		}
		if s.Process.OOMScoreAdj != nil {
			v.Oom = fmt.Sprint(*s.Process.OOMScoreAdj)
		}
	}
	for _, m := range api.FromOCIMounts(s.Mounts) {
		if m.Destination == "/verif-cdi" {
			continue // the harness injector's own mount: its position is C13's business only
		}
		if _, ok := v.Mounts[m.Destination]; ok {
			v.MntDup = append(v.MntDup, m.Destination)
		}
		v.Mounts[m.Destination] = mountStr(m)
	}
	for i, l := range hookLists(api.FromOCIHooks(s.Hooks)) {
		for _, h := range l {
			v.Hooks[i] = append(v.Hooks[i], hookStr(h))
		}
	}
	if s.Linux != nil {
		for _, d := range api.FromOCILinuxDevices(s.Linux.Devices) {
			if _, ok := v.Devs[d.Path]; ok {
				v.DevDup = append(v.DevDup, d.Path)
			}
			v.Devs[d.Path] = devStr(d)
		}
		v.Res = flattenRes(api.FromOCILinuxResources(s.Linux.Resources, nil))
		// the device-cgroup allow rules the generator derives from injected devices are not compared (§3 C03)
		delete(v.Res.S, "devrules")
		if r := s.Linux.Resources; r != nil && r.BlockIO != nil && r.BlockIO.Weight != nil {
			v.Res.S["blockio"] = fmt.Sprint(*r.BlockIO.Weight)
		}
		if s.Linux.IntelRdt != nil {
			v.Res.S["rdt"] = s.Linux.IntelRdt.ClosID
		}
		v.Cgroups = s.Linux.CgroupsPath
	}
	return v
}

// generatorFields are the resource items the project's generator carries into a spec.
func generatorCarries(item string) bool {
	switch {
	case strings.HasPrefix(item, "cpu."), item == "mem.limit", item == "pids",
		strings.HasPrefix(item, "hugepage:"), strings.HasPrefix(item, "unified:"):
		return true
	}
	return false
}

func restrictRes(f ResFlat, keep func(string) bool) ResFlat {
	o := newResFlat()
	for _, it := range f.items() {
		if keep(it) {
			v, _ := f.get(it)
			o.set(it, v)
		}
	}
	return o
}

// ---------------------------------------------------------------------------
// oracles

var conflictRe = regexp.MustCompile(`both tried to set ([A-Za-z' /]+?)( [^ ]+)?$`)

func errSubject(err error) string {
	s := err.Error()
	if m := conflictRe.FindStringSubmatch(s); m != nil {
		return "conflict:" + strings.ReplaceAll(strings.TrimSpace(m[1]), " ", "-")
	}
	if strings.Contains(s, "asked update of") {
		return "update-of-created"
	}
	return "other-error"
}

func itemKind(item string) string {
	if i := strings.Index(item, ":"); i > 0 {
		return item[:i]
	}
	return item
}

type mergeChecker struct {
	which string // C01..C05
	res   *ev.Result
}

func (mc *mergeChecker) check(c *MCase, nScripted int, obs *mObs) {
	// the sentinel is one more (empty) response at the end
	resp := append(append([]PResp(nil), c.Resp...), PResp{})
	exp := Evaluate(c.Kind, c.Ctr, c.Res, resp)
	r := mc.res
	r.Eval()
	caseTag := ""
	if len(c.Tags) > 0 {
		caseTag = c.Tags[0]
	}
	r.Count("verdict:"+exp.Verdict, 1)
	if exp.Verdict == Unspecified || (exp.ArgsBare && mc.which != "C01" && mc.which != "C02") {
		r.Count("unspecified_cases", 1)
		if mc.which == "C05" {
			mc.sanityC05(c, obs)
		}
		return
	}
	sample := func() {
		r.Sample(map[string]any{"case": c.ID, "kind": c.Kind, "plugins": nScripted, "tag": caseTag,
			"expected": exp.Verdict, "why": exp.Why, "observed_error": fmt.Sprint(obs.Err),
			"responses": summarizeResp(c.Resp)})
	}

	switch mc.which {
	case "C01":
		if exp.Verdict == MustFail && exp.FailItem != "update-of-created" {
			sig := fmt.Sprintf("%s|%s|d%d|%s", itemKind(exp.FailItem), exp.FailPath, exp.FailPlugin[1]-exp.FailPlugin[0], c.Kind)
			if caseTag != "" {
				sig = caseTag
			}
			r.Seen(sig)
			r.Count("must_fail_cases", 1)
			if obs.Err == nil {
				r.Violate(fmt.Sprintf("C01/missed-conflict/%s/%s", itemKind(exp.FailItem), exp.FailPath),
					fmt.Sprintf("plugins at positions %d and %d both set %s (%s) but the %s request succeeded", exp.FailPlugin[0], exp.FailPlugin[1], exp.FailItem, exp.Why, c.Kind), c)
			} else {
				sample()
			}
		} else if exp.Verdict == MustSucceed {
			r.Count("must_succeed_cases", 1)
		}
	case "C02":
		if exp.Verdict == MustSucceed {
			r.Count("must_succeed_cases", 1)
			nt := exp.Releases > 0 || exp.ReSets > 0 || exp.LoneRemovals > 0 || c.Kind != "create" || len(exp.UpdOrder) > 0
			if nt {
				sig := caseTag
				if sig == "" {
					sig = fmt.Sprintf("%s|rel%d|reset%d|lone%d|upd%d|prepop%v", c.Kind, min(exp.Releases, 2), min(exp.ReSets, 2), min(exp.LoneRemovals, 2), min(len(exp.UpdOrder), 3), c.Res != nil)
				}
				r.Seen(sig)
			}
			if obs.Err != nil {
				r.Violate(fmt.Sprintf("C02/false-conflict/%s/%s", errSubject(obs.Err), c.Kind),
					fmt.Sprintf("no two plugins set the same item, yet the %s request failed: %v", c.Kind, obs.Err), c)
			} else if nt {
				sample()
			}
		}
	case "C03":
		if c.Kind != "create" || exp.Verdict != MustSucceed {
			return
		}
		if obs.Err != nil || obs.Create == nil {
			r.Count("skipped_failed_requests", 1)
			return // C02's alarm, not this one's
		}
		mc.checkC03(c, exp, obs, sample)
	case "C04":
		if exp.Verdict != MustSucceed || c.Kind == "stop" {
			return
		}
		if obs.Err != nil {
			r.Count("skipped_failed_requests", 1)
			return
		}
		mc.checkC04(c, exp, obs, nScripted, sample)
	case "C05":
		mc.checkC05(c, exp, obs, sample)
	}
}

func summarizeResp(resp []PResp) []string {
	var out []string
	for i, r := range resp {
		s := fmt.Sprintf("p%d:", i)
		if a := r.Adjust; a != nil {
			var ks []string
			for k := range a.Annotations {
				ks = append(ks, "ann "+k)
			}
			for _, e := range a.Env {
				ks = append(ks, "env "+e.Key)
			}
			for _, m := range a.Mounts {
				ks = append(ks, "mount "+m.Destination)
			}
			if a.Linux != nil {
				for _, d := range a.Linux.Devices {
					ks = append(ks, "dev "+d.Path)
				}
				for _, it := range flattenRes(a.Linux.Resources).items() {
					ks = append(ks, it)
				}
				if a.Linux.CgroupsPath != "" {
					ks = append(ks, "cgroupspath")
				}
				if a.Linux.OomScoreAdj != nil {
					ks = append(ks, "oom")
				}
			}
			for _, l := range a.Rlimits {
				ks = append(ks, "rlimit "+l.Type)
			}
			for _, d := range a.CDIDevices {
				ks = append(ks, "cdi "+d.Name)
			}
			if len(a.Args) > 0 {
				ks = append(ks, fmt.Sprintf("args %q", a.Args))
			}
			sort.Strings(ks)
			s += " adjust{" + strings.Join(ks, ", ") + "}"
		}
		for _, u := range r.Updates {
			var rr *api.LinuxResources
			if u.Linux != nil {
				rr = u.Linux.Resources
			}
			s += fmt.Sprintf(" update{%s ignore=%v %s}", u.ContainerId, u.IgnoreFailure, strings.Join(flattenRes(rr).items(), ","))
		}
		out = append(out, s)
	}
	return out
}

func (mc *mergeChecker) checkC03(c *MCase, exp *Expect, obs *mObs, sample func()) {
	r := mc.res
	var seq []*api.ContainerAdjustment
	for _, pr := range c.Resp {
		seq = append(seq, pluginAdjAsSent(pr.Adjust))
	}
	A, errA := applyAdjust(c.Spec, obs.Create.Adjust)
	B, errB := applyAdjust(c.Spec, seq...)
	if errA != nil || errB != nil {
		r.Violate("C03/generator-error", fmt.Sprintf("generator failed: combined=%v sequential=%v", errA, errB), c)
		return
	}
	// non-triviality: signature of the operation mix
	sig := fmt.Sprintf("n%d|rel%d|reset%d|lone%d|hooks%v", len(c.Resp), min(exp.Releases, 3), min(exp.ReSets, 3), min(exp.LoneRemovals, 3), len(exp.Final.Hooks[0])+len(exp.Final.Hooks[5]) > 0)
	fams := map[string]bool{}
	for _, pr := range c.Resp {
		if a := pr.Adjust; a != nil {
			if len(a.Annotations) > 0 {
				fams["ann"] = true
			}
			if len(a.Env) > 0 {
				fams["env"] = true
			}
			if len(a.Mounts) > 0 {
				fams["mnt"] = true
			}
			if a.Linux != nil && len(a.Linux.Devices) > 0 {
				fams["dev"] = true
			}
			if a.Linux != nil && a.Linux.Resources != nil {
				fams["res"] = true
			}
			if len(a.Rlimits) > 0 {
				fams["rlim"] = true
			}
			if len(a.CDIDevices) > 0 {
				fams["cdi"] = true
			}
			if len(a.Args) > 0 {
				fams["args"] = true
			}
		}
	}
	var fl []string
	for f := range fams {
		fl = append(fl, f)
	}
	sort.Strings(fl)
	if len(fl) > 0 {
		r.Seen(sig + "|" + strings.Join(fl, "+"))
	}
	va, vb := viewOfSpec(A), viewOfSpec(B)
	bad := false
	for fam, d := range diffView(vb, va) {
		bad = true
		r.Violate("C03/combined-differs/"+fam,
			fmt.Sprintf("applying the combined adjustment differs from applying each plugin's adjustment in turn (want = sequential): %s", d), c)
	}
	// the mounts come in the same order, too (they are applied in order)
	{
		var oa, ob []string
		for _, m := range A.Mounts {
			if !strings.HasPrefix(m.Destination, "/verif-cdi") {
				oa = append(oa, m.Destination)
			}
		}
		for _, m := range B.Mounts {
			if !strings.HasPrefix(m.Destination, "/verif-cdi") {
				ob = append(ob, m.Destination)
			}
		}
		if strings.Join(oa, "|") != strings.Join(ob, "|") && len(oa) == len(ob) {
			bad = true
			r.Violate("C03/combined-differs/mount-order", fmt.Sprintf("applying the combined adjustment leaves the mounts in another order than applying each plugin's adjustment in turn: combined %v, in turn %v", oa, ob), c)
		}
	}
	// "in turn" by the reference semantics as well: what the combined adjustment makes of the original equals
	// the model container after all plugins, for the keyed families (a change common to both generator runs
	// above, e.g. in how untouched entries are rewritten, cancels out in the differential comparison)
	if exp.Final != nil {
		vh := va.clone()
		for k := range vh.Ann {
			if strings.HasPrefix(k, "verif.") { // written by the harness resolvers (CDI, block I/O, RDT)
				delete(vh.Ann, k)
			}
		}
		for fam, d := range diffView(exp.Final, vh) {
			if fam == "env" || fam == "annotation" || fam == "mount" || fam == "device" {
				bad = true
				r.Violate("C03/combined-differs-from-reference/"+fam,
					fmt.Sprintf("applying the combined adjustment to the original differs from the reference result of applying each plugin's adjustment in turn (want = reference): %s", d), c)
			}
		}
	}
	// structural oracle for what the generator does not carry: every resource field / cgroups path /
	// OOM score in the combined reply equals its final owner's value, nothing unowned is set
	var got ResFlat
	cg, oom := "", ""
	if l := obs.Create.Adjust.GetLinux(); l != nil {
		got = flattenRes(l.Resources)
		cg = l.CgroupsPath
		if l.OomScoreAdj != nil {
			oom = fmt.Sprint(l.OomScoreAdj.Value)
		}
	} else {
		got = newResFlat()
	}
	if d := diffRes(exp.AdjRes, got); d != "" {
		bad = true
		r.Violate("C03/reply-resources-differ", "combined adjustment's resources differ from the owners' values: "+d, c)
	}
	wantCg, wantOom := "", ""
	for _, pr := range c.Resp {
		if l := pr.Adjust.GetLinux(); l != nil {
			if l.CgroupsPath != "" {
				wantCg = l.CgroupsPath
			}
			if l.OomScoreAdj != nil {
				wantOom = fmt.Sprint(l.OomScoreAdj.Value)
			}
		}
	}
	if cg != wantCg || oom != wantOom {
		bad = true
		r.Violate("C03/reply-scalars-differ", fmt.Sprintf("cgroups path %q (want %q), oom score %q (want %q)", cg, wantCg, oom, wantOom), c)
	}
	if !bad && len(fl) > 0 {
		sample()
	}
}

func (mc *mergeChecker) checkC04(c *MCase, exp *Expect, obs *mObs, nScripted int, sample func()) {
	r := mc.res
	if c.Kind == "create" {
		touched := 0
		for i, pr := range c.Resp {
			if pr.Adjust != nil && i < len(c.Resp) {
				touched++
			}
		}
		for pos := 0; pos <= nScripted; pos++ {
			got, ok := obs.Views[pos]
			if !ok {
				r.Violate("C04/not-invoked", fmt.Sprintf("plugin at position %d was not shown the container", pos), c)
				continue
			}
			want := exp.Views[pos]
			gv := viewOfContainer(got)
			earlier := 0
			for i := 0; i < pos && i < len(c.Resp); i++ {
				if c.Resp[i].Adjust != nil {
					earlier++
				}
			}
			if earlier > 0 {
				r.Seen(fmt.Sprintf("create|pos%d|earlier%d|rel%d|lone%d", pos, earlier, min(exp.Releases, 2), min(exp.LoneRemovals, 2)))
			}
			for fam, d := range diffView(want, gv) {
				site := "first"
				if pos > 0 {
					site = "later"
				}
				r.Violate(fmt.Sprintf("C04/view-differs/%s/%s", fam, site),
					fmt.Sprintf("plugin at position %d was shown a container that is not the original with earlier adjustments applied: %s", pos, d), c)
			}
		}
		// sentinel: what the last plugin is shown must agree with what the runtime obtains
		if sv, ok := obs.Views[nScripted]; ok && obs.Create != nil {
			A, err := applyAdjust(c.Spec, obs.Create.Adjust)
			if err == nil {
				va := viewOfSpec(A)
				delete(va.Ann, "verif.cdi")
				va.Res = restrictRes(va.Res, generatorCarries)
				vs := viewOfContainer(sv)
				vs.Res = restrictRes(vs.Res, generatorCarries)
				for fam, d := range diffView(va, vs) {
					r.Violate("C04/sentinel-differs/"+fam,
						fmt.Sprintf("what the last plugin is shown disagrees with what the runtime obtains from the combined result (want = runtime's): %s", d), c)
				}
			}
		}
		if touched > 0 {
			sample()
		}
		return
	}
	// update requests
	for pos := 0; pos <= nScripted; pos++ {
		got, ok := obs.ResViews[pos]
		if !ok {
			r.Violate("C04/not-invoked", fmt.Sprintf("plugin at position %d was not shown the update", pos), c)
			continue
		}
		want := exp.ResViews[pos]
		if !want.empty() && pos > 0 {
			r.Seen(fmt.Sprintf("update|pos%d|prepop%v|ownset%v", pos, c.Res != nil, exp.OwnSet))
		}
		if d := diffRes(want, flattenRes(got)); d != "" {
			site := "first"
			if pos > 0 {
				site = "later"
			}
			r.Violate("C04/resview-differs/"+site,
				fmt.Sprintf("plugin at position %d was shown resources that are not the request with earlier updates applied: %s", pos, d), c)
		}
	}
	if exp.OwnSet {
		sample()
	}
}

func (mc *mergeChecker) checkC05(c *MCase, exp *Expect, obs *mObs, sample func()) {
	r := mc.res
	if exp.Verdict == MustFail {
		if exp.FailItem == "update-of-created" {
			r.Seen("self-update-during-create")
			if obs.Err == nil {
				r.Violate("C05/self-update-accepted", "an update targeting the container being created did not fail the request", c)
			}
		} else if exp.FailPath != "create-adjust" && obs.Err == nil {
			// a field of one target set by two plugins' updates (neither marked ignore-failure): the entry cannot
			// carry "each field from its single owner"
			r.Violate("C05/two-owners/"+itemKind(exp.FailItem), fmt.Sprintf("plugins at positions %d and %d both set %s through updates (%s), yet the %s request succeeded", exp.FailPlugin[0], exp.FailPlugin[1], exp.FailItem, exp.FailPath, c.Kind), c)
		}
		return
	}
	if obs.Err != nil {
		if exp.IgnoredDrops > 0 && strings.HasPrefix(errSubject(obs.Err), "conflict:") {
			// the only conflicts of this case are those of updates marked ignore-failure
			r.Violate("C05/ignored-conflict-failed-request", fmt.Sprintf("every conflicting update of this %s request is marked ignore-failure (%d of them), yet the request failed: %v", c.Kind, exp.IgnoredDrops, obs.Err), c)
			return
		}
		r.Count("skipped_failed_requests", 1)
		return
	}
	var list []*api.ContainerUpdate
	switch c.Kind {
	case "create":
		list = obs.Create.GetUpdate()
	case "update":
		list = obs.Update.GetUpdate()
	case "stop":
		list = obs.Stop.GetUpdate()
	}
	self := c.Ctr.Id
	bad := false
	viol := func(sig, what string) {
		bad = true
		r.Violate(sig, what, c)
	}
	// for update requests the last element is the requested container's entry
	if c.Kind == "update" {
		if len(list) == 0 {
			viol("C05/own-entry-missing", "update response carries no entry for the container being updated")
			return
		}
		last := list[len(list)-1]
		list = list[:len(list)-1]
		switch {
		case !exp.OwnSet:
			if last != nil {
				blank := last.ContainerId == self && flattenRes(last.GetLinux().GetResources()).empty()
				if !(blank && (exp.OwnNamed || exp.BlankOK[self])) {
					viol("C05/own-placeholder", fmt.Sprintf("no plugin changed the updated container, yet its entry is not an empty placeholder: %v", last))
				}
			}
		default:
			if last == nil {
				viol("C05/own-entry-missing", "a plugin changed the updated container but its entry is a nil placeholder")
			} else {
				if last.ContainerId != self {
					viol("C05/own-not-last", fmt.Sprintf("last entry is for %q, not for the updated container", last.ContainerId))
				}
				if d := diffRes(exp.OwnRes, flattenRes(last.GetLinux().GetResources())); d != "" {
					viol("C05/own-fields-differ/"+firstItemKind(d), "entry of the updated container is not the requested resources overlaid with the plugins' changes: "+d)
				}
			}
		}
	}
	seen := map[string]bool{}
	for _, u := range list {
		if u == nil {
			viol("C05/nil-entry", "nil entry among third-party updates")
			continue
		}
		t := u.ContainerId
		if seen[t] {
			viol("C05/duplicate-target", "two entries for target "+t)
			continue
		}
		seen[t] = true
		if c.Kind == "update" && t == self {
			viol("C05/own-not-last", "the updated container's entry is not the last one")
			continue
		}
		want, named := exp.Upd[t]
		if !named {
			viol("C05/unknown-target", "entry for a target no plugin named: "+t)
			continue
		}
		got := flattenRes(u.GetLinux().GetResources())
		if d := diffRes(want, got); d != "" {
			viol("C05/fields-differ/"+firstItemKind(d), fmt.Sprintf("entry for %s does not carry exactly the fields plugins set: %s", t, d))
		}
	}
	for _, t := range exp.UpdOrder {
		if c.Kind == "update" && t == self {
			continue
		}
		if !seen[t] && !exp.Upd[t].empty() {
			viol("C05/missing-target", "no entry for target "+t+" although plugins set fields for it")
		}
	}
	// dropped ignore-failure updates contribute no values anywhere
	if len(exp.Dropped) > 0 {
		all, _ := json.Marshal(map[string]any{"c": obs.Create.GetUpdate(), "u": obs.Update.GetUpdate(), "s": obs.Stop.GetUpdate()})
		for _, d := range exp.Dropped {
			kv := strings.SplitN(d, "=", 2)
			val := strings.TrimPrefix(kv[1], "=")
			if kv[0] == "mem.disableoom" || kv[0] == "mem.usehierarchy" || isBoundaryValue(val) {
				continue // not unique, cannot identify its writer
			}
			if len(val) >= 4 && containsToken(string(all), val) {
				// the same value may legitimately be there if an owner set it (values are unique, so no)
				viol("C05/dropped-value-leaked", fmt.Sprintf("value %s of a dropped ignore-failure update (%s) appears in the reply: %s", val, kv[0], all))
			}
		}
	}
	nt := len(exp.UpdOrder)
	if nt > 0 {
		multi := 0
		for _, t := range exp.UpdOrder {
			owners := map[int]bool{}
			for _, p := range exp.Owner[t] {
				owners[p] = true
			}
			if len(owners) > 1 {
				multi++
			}
		}
		r.Seen(fmt.Sprintf("%s|targets%d|multiowner%d|own%v/%v|ignored%d|prepop%v", c.Kind, min(nt, 4), min(multi, 2), exp.OwnNamed, exp.OwnSet, min(exp.IgnoredDrops, 2), c.Res != nil))
		if !bad {
			sample()
		}
	}
}

func firstItemKind(d string) string {
	d = strings.SplitN(d, ";", 2)[0]
	d = strings.SplitN(d, ":", 2)[0]
	return strings.TrimSpace(d)
}

// ---------------------------------------------------------------------------
// child entry point

type mergePlan struct {
	sizes      []int // rig sizes, one child each
	randomPer  int   // random cases per rig
	systematic bool
}

func mergePlanFor(which, tier string) mergePlan {
	p := mergePlan{sizes: []int{2, 3, 4, 5, 1}, systematic: true}
	per := map[string]int{"C01": 300, "C02": 400, "C03": 500, "C04": 500, "C05": 500}[which]
	if tier == "thorough" {
		per *= 120
	}
	p.randomPer = per
	return p
}

func runMergeChild(which string, c *ev.ChildEnv, res *ev.Result) {
	rig.QuietLogs()
	plan := mergePlanFor(which, c.Tier)
	n := plan.sizes[c.Batch%len(plan.sizes)]
	seed := uint64(c.Seed)
	rng := rand.New(rand.NewPCG(seed, uint64(1000+c.Batch)))
	m, err := newMergeRig(c.Dir, n, rng, false)
	if err != nil {
		res.Note("rig failed: %v", err)
		return
	}
	defer m.close()
	g := newMgen(seed, uint64(c.Batch)+77)
	mc := &mergeChecker{which: which, res: res}

	var cases []*MCase
	id := func(i int) string { return fmt.Sprintf("%s-b%d-c%d", strings.ToLower(which), c.Batch, i) }
	if plan.systematic {
		for _, s := range systematicSpecs() {
			if s.N != n {
				continue
			}
			if which == "C05" && s.Pattern == "plain" && s.Path != "create-adjust" {
				cases = append(cases, g.genSystematic(id(len(cases)), s))
				continue
			}
			if which != "C01" && (s.Pattern == "plain" || s.Pattern == "collision-after-ignored-drop" || s.Pattern == "decoy-removal-then-set" || s.Pattern == "same-value" || s.Pattern == "orig-value-then-other" || s.Pattern == "collision-after-ignored-drop-same-response" || s.Pattern == "reset-then-collide") {
				continue // the must-fail half belongs to C01
			}
			if which == "C03" && s.Path != "create-adjust" {
				continue
			}
			if which == "C04" && s.Path != "create-adjust" && s.Path != "update-own" {
				continue
			}
			cases = append(cases, g.genSystematic(id(len(cases)), s))
		}
	}
	if which == "C02" && n == 2 {
		// every ordered pair of different resource kinds on every path
		for _, k1 := range resKinds() {
			for _, k2 := range resKinds() {
				if k1.name == k2.name {
					continue
				}
				for _, path := range []string{"create-adjust", "create-3p", "update-own", "stop-3p"} {
					cases = append(cases, g.genPair(id(len(cases)), k1.name, k2.name, path))
				}
			}
		}
	}
	for i := 0; i < plan.randomPer; i++ {
		o := genOpts{N: n, Ignore: 0.2}
		x := g.rng.Float64()
		switch which {
		case "C01":
			o.Kind = []string{"create", "create", "update", "stop"}[g.rng.IntN(4)]
			o.Disjoint = false
			o.Boundary = true
			o.SelfUpd = 0.02
			o.Ignore = 0.1
		case "C02":
			o.Kind = []string{"create", "create", "update", "update", "stop"}[g.rng.IntN(5)]
			o.Disjoint = true
			o.Boundary = true
			o.Ignore = 0
		case "C03":
			o.Kind = "create"
			o.Disjoint = true
			o.OpsMax = 6
			o.Boundary = true
		case "C04":
			o.Kind = []string{"create", "create", "update"}[g.rng.IntN(3)]
			o.Disjoint = true
			o.OpsMax = 5
			o.Boundary = true
			if o.Kind == "update" && x < 0.5 {
				// conflicting ignore-failure updates get dropped whole: later plugins must not see any part of them
				o.Disjoint = false
				o.Ignore = 0.7
			}
		case "C05":
			o.Kind = []string{"create", "update", "update", "stop"}[g.rng.IntN(4)]
			o.Disjoint = x < 0.6
			o.Ignore = 0.35
			o.SelfUpd = 0.05
			o.Boundary = true
		}
		cases = append(cases, g.genCase(id(len(cases)), o))
	}

	// several requests in flight: R varies per segment
	conc := []int{1, 4, 16}
	seg := (len(cases) + len(conc) - 1) / len(conc)
	for si, R := range conc {
		lo, hi := si*seg, min((si+1)*seg, len(cases))
		if lo >= hi {
			continue
		}
		ch := make(chan *MCase)
		var wg sync.WaitGroup
		for w := 0; w < R; w++ {
			wg.Add(1)
			go func() {
				defer wg.Done()
				for cs := range ch {
					c.WAL("case %s kind=%s", cs.ID, cs.Kind)
					obs := m.exec(cs)
					mc.check(cs, n, obs)
				}
			}()
		}
		for _, cs := range cases[lo:hi] {
			ch <- cs
		}
		close(ch)
		wg.Wait()
		res.Count(fmt.Sprintf("cases_with_%d_in_flight", R), int64(hi-lo))
	}
	res.Count(fmt.Sprintf("rig_plugins_%d", n), 1)
	if which == "C05" && c.Batch == 0 {
		m.close()
		runNoPlugins(c, res, g, mc)
	}
	if which == "C01" && n == 2 {
		m.close()
		runTwins(c, res, g, rng)
	}
}

// runTwins: two distinct plugin instances registered under the same index and name both set the same
// item. Their relative order is not determined, so only cases that must fail in either order are asserted.
func runTwins(c *ev.ChildEnv, res *ev.Result, g *mgen, rng *rand.Rand) {
	dir := c.Dir + "/twin"
	os.MkdirAll(dir, 0o755)
	m, err := newMergeRig(dir, 2, rng, true)
	if err != nil {
		res.Note("twin rig failed: %v", err)
		return
	}
	defer m.close()
	i := 0
	for _, s := range systematicSpecs() {
		if s.N != 2 || s.Pattern != "plain" {
			continue
		}
		cs := g.genSystematic(fmt.Sprintf("c01-twin-c%d", i), s)
		i++
		c.WAL("case %s kind=%s", cs.ID, cs.Kind)
		obs := m.exec(cs)
		fwd := append(append([]PResp(nil), cs.Resp...), PResp{})
		rev := []PResp{cs.Resp[1], cs.Resp[0], {}}
		e1, e2 := Evaluate(cs.Kind, cs.Ctr, cs.Res, fwd), Evaluate(cs.Kind, cs.Ctr, cs.Res, rev)
		res.Eval()
		if e1.Verdict != MustFail || e2.Verdict != MustFail || e1.FailItem == "update-of-created" {
			res.Count("twin_unasserted", 1)
			continue
		}
		res.Seen("twin|" + cs.Tags[0])
		res.Count("twin_must_fail_cases", 1)
		if obs.Err == nil {
			res.Violate(fmt.Sprintf("C01/missed-conflict/%s/%s/same-name-plugins", itemKind(e1.FailItem), e1.FailPath),
				fmt.Sprintf("two plugin instances registered as 05-twin both set %s (%s) but the %s request succeeded", e1.FailItem, e1.Why, cs.Kind), cs)
		}
	}
}

// isBoundaryValue: the value does not contain a generator-made unique number (1001 <= n < 10^9), so it
// cannot identify its writer.
func isBoundaryValue(v string) bool {
	run := ""
	uniq := false
	check := func() {
		if len(run) >= 4 && len(run) <= 9 {
			n := 0
			fmt.Sscan(run, &n)
			if n > 1000 {
				uniq = true
			}
		}
		run = ""
	}
	for i := 0; i < len(v); i++ {
		if v[i] >= '0' && v[i] <= '9' {
			run += string(v[i])
		} else {
			check()
		}
	}
	check()
	return !uniq
}

// containsToken reports whether val occurs in s delimited by non-alphanumerics.
func containsToken(s, val string) bool {
	isAN := func(b byte) bool {
		return b >= '0' && b <= '9' || b >= 'a' && b <= 'z' || b >= 'A' && b <= 'Z'
	}
	for off := 0; ; {
		i := strings.Index(s[off:], val)
		if i < 0 {
			return false
		}
		i += off
		j := i + len(val)
		if (i == 0 || !isAN(s[i-1])) && (j == len(s) || !isAN(s[j])) {
			return true
		}
		off = i + 1
	}
}

// sanityC05: what holds for the update list of ANY successful request, also of cases whose outcome the
// statements leave open (a plugin naming one item twice may be refused or not): one entry per target,
// and within an entry every hugepage size at most once.
func (mc *mergeChecker) sanityC05(c *MCase, obs *mObs) {
	if obs.Err != nil {
		return
	}
	var list []*api.ContainerUpdate
	switch c.Kind {
	case "create":
		list = obs.Create.GetUpdate()
	case "update":
		list = obs.Update.GetUpdate()
	case "stop":
		list = obs.Stop.GetUpdate()
	}
	seen := map[string]bool{}
	for _, u := range list {
		if u == nil {
			continue
		}
		if seen[u.ContainerId] {
			mc.res.Violate("C05/duplicate-target", "two entries for target "+u.ContainerId, c)
		}
		seen[u.ContainerId] = true
		// the updated container's own entry is the runtime's request overlaid by appending: a size the
		// request itself carried may appear once more (last one wins; accepted, see DESIGN.md)
		sizes := map[string]int{}
		if c.Kind == "update" && u.ContainerId == c.Ctr.Id {
			for _, h := range c.Res.GetHugepageLimits() {
				sizes[h.PageSize]--
			}
		}
		for _, h := range u.GetLinux().GetResources().GetHugepageLimits() {
			sizes[h.PageSize]++
			if sizes[h.PageSize] > 1 {
				mc.res.Violate("C05/duplicate-field/hugepage", fmt.Sprintf("the entry for %s carries hugepage size %s more than once from the plugins", u.ContainerId, h.PageSize), c)
			}
		}
	}
	mc.res.Seen("sanity|" + c.Kind)
}
