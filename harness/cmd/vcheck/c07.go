package main

// C07 — failing plugins cannot stall, crash or corrupt a request; handler errors veto it.

import (
	"context"
	"encoding/binary"
	"errors"
	"fmt"
	"io"
	"math/rand/v2"
	"net"
	"os"
	"sort"
	"strings"
	"sync"
	"sync/atomic"
	"time"

	"nriverif/internal/ev"
	"nriverif/internal/rig"

	"github.com/containerd/nri/pkg/adaptation"
	"github.com/containerd/nri/pkg/api"
	"github.com/containerd/nri/pkg/net/multiplex"
	"google.golang.org/grpc/codes"
	"google.golang.org/grpc/status"
)

var reqTimeout = 500 * time.Millisecond

const (
	c07ReqTimeout = 500 * time.Millisecond
	c07RegTimeout = 2 * time.Second
	c07Hard       = 15 * time.Second
)

var c07ReqKinds = []string{"create", "update", "stop", "updatepod", "statechange"}

type c07Case struct {
	Fault   string `json:"fault"`
	Pos     int    `json:"faulty_position"` // index-order position of the faulty plugin
	N       int    `json:"plugins"`
	Req     string `json:"request"`
	K       int    `json:"byte_offset,omitempty"`
	Second  string `json:"second_fault,omitempty"` // a second faulty plugin in the same request
	Pos2    int    `json:"second_position,omitempty"`
	Rep     int    `json:"repetition"`
	LargeKB int    `json:"request_kib,omitempty"`
}

type c07Fault struct {
	kind string
	k    int
}

// faults that drop the plugin (transport level); may = its contribution may or may not be in the result
var c07Transport = map[string]bool{
	"close-before": true, "close-on-receipt": true, "close-after-reply": true, "cut-request": true, "cut-response": true,
	"hang": true, "garbage-frame": true, "stall-large": true, "flood": true, "flood-raw": true, "oversize-header": true, "stall-forever": true,
}

type c07Peer struct {
	pos    int
	idx    string
	stub   *rig.Plugin
	raw    *rig.RawPlugin
	cut    *rig.CutConn
	fault  *c07Fault
	mu     sync.Mutex
	seen   map[string]int // request id -> invocations
	armed  atomic.Bool    // the fault fires on the next request
	fired  atomic.Int64   // tick when the fault fired
	unhang chan struct{}
}

func (p *c07Peer) note(id string) {
	p.mu.Lock()
	p.seen[id]++
	p.mu.Unlock()
}
func (p *c07Peer) count(id string) int {
	p.mu.Lock()
	defer p.mu.Unlock()
	return p.seen[id]
}

// c07VetoErr: the error a handler deliberately returns; k selects its kind. Whatever it is, it is the
// handler's answer, not a transport failure.
func c07VetoErr(k, pos int, id string) error {
	switch k % 7 {
	case 1:
		return context.DeadlineExceeded
	case 2:
		return context.Canceled
	case 3:
		return status.Error(codes.DeadlineExceeded, fmt.Sprintf("veto-by-%d-of-%s", pos, id))
	case 4:
		return status.Error(codes.Unavailable, fmt.Sprintf("veto-by-%d-of-%s", pos, id))
	case 5:
		return io.EOF
	case 6:
		return errors.New("ttrpc: closed")
	}
	return fmt.Errorf("veto-by-%d-of-%s", pos, id)
}

func c07VetoText(k, pos int, id string) string {
	switch k % 7 {
	case 1:
		return "deadline exceeded"
	case 2:
		return "canceled"
	case 5:
		return "EOF"
	case 6:
		return "ttrpc: closed"
	}
	return fmt.Sprintf("veto-by-%d-of-%s", pos, id)
}

func c07Contribution(kind, id string, pos int) (*api.ContainerAdjustment, []*api.ContainerUpdate) {
	switch kind {
	case "create":
		return &api.ContainerAdjustment{Annotations: map[string]string{fmt.Sprintf("c07.%d", pos): id}}, nil
	case "update", "stop":
		u := &api.ContainerUpdate{ContainerId: fmt.Sprintf("%s.t%d", id, pos)}
		u.AddLinuxUnified("k", id)
		return nil, []*api.ContainerUpdate{u}
	}
	return nil, nil
}

// c07Send issues one request and returns the contributions found in the reply.
func c07Send(a *adaptation.Adaptation, kind, id string, largeKB int) (contrib []string, hasReply bool, err error) {
	ctx := context.Background()
	pod := &api.PodSandbox{Id: id, Name: id}
	ctr := &api.Container{Id: id, PodSandboxId: id, Name: id}
	if largeKB > 0 {
		ctr.Annotations = map[string]string{"pad": strings.Repeat("p", largeKB<<10)}
	}
	b := a.BlockPluginSync()
	defer b.Unblock()
	switch kind {
	case "create":
		rpl, e := a.CreateContainer(ctx, &api.CreateContainerRequest{Pod: pod, Container: ctr})
		err, hasReply = e, rpl != nil
		for k, v := range rpl.GetAdjust().GetAnnotations() {
			contrib = append(contrib, k+"="+v)
		}
	case "update":
		rpl, e := a.UpdateContainer(ctx, &api.UpdateContainerRequest{Pod: pod, Container: ctr, LinuxResources: &api.LinuxResources{}})
		err, hasReply = e, rpl != nil
		for _, u := range rpl.GetUpdate() {
			if u != nil {
				contrib = append(contrib, u.ContainerId+"="+u.GetLinux().GetResources().GetUnified()["k"])
			}
		}
	case "stop":
		rpl, e := a.StopContainer(ctx, &api.StopContainerRequest{Pod: pod, Container: ctr})
		err, hasReply = e, rpl != nil
		for _, u := range rpl.GetUpdate() {
			contrib = append(contrib, u.ContainerId+"="+u.GetLinux().GetResources().GetUnified()["k"])
		}
	case "updatepod":
		rpl, e := a.UpdatePodSandbox(ctx, &api.UpdatePodSandboxRequest{Pod: pod, OverheadLinuxResources: &api.LinuxResources{}, LinuxResources: &api.LinuxResources{}})
		err, hasReply = e, rpl != nil
	case "statechange":
		err = a.StartContainer(ctx, &api.StateChangeEvent{Pod: pod, Container: ctr})
	}
	sort.Strings(contrib)
	return
}

func c07Want(kind, id string, pos []int) []string {
	var w []string
	for _, p := range pos {
		switch kind {
		case "create":
			w = append(w, fmt.Sprintf("c07.%d=%s", p, id))
		case "update", "stop":
			w = append(w, fmt.Sprintf("%s.t%d=%s", id, p, id))
		}
	}
	sort.Strings(w)
	return w
}

// newFaultyPeer builds the raw plugin that will misbehave.
func newFaultyPeer(pos int, idx string, f *c07Fault) *c07Peer {
	p := &c07Peer{pos: pos, idx: idx, fault: f, seen: map[string]int{}, unhang: make(chan struct{})}
	rp := rig.NewRawPlugin(fmt.Sprintf("f%d", pos), idx, 0)
	p.raw = rp
	// misbehave: returns (handled, error); when handled the reply is suppressed/poisoned accordingly
	before := func(kind, id string) (proceed bool, err error) {
		p.note(id)
		if !p.armed.Load() {
			return true, nil
		}
		switch f.kind {
		case "close-on-receipt":
			p.fired.Store(rig.Tick())
			p.cut.CutNow()
			return false, errors.New("gone")
		case "hang":
			p.fired.Store(rig.Tick())
			select { // ignores its context on purpose
			case <-p.unhang:
			case <-time.After(c07Hard):
			}
			return false, errors.New("hung")
		case "veto":
			p.fired.Store(rig.Tick())
			return false, c07VetoErr(f.k, pos, id)
		case "cut-response":
			p.fired.Store(rig.Tick())
			p.cut.ArmWrite(p.cut.Written() + int64(f.k))
		case "close-after-reply":
			p.fired.Store(rig.Tick())
			go func() { time.Sleep(200 * time.Microsecond); p.cut.CutNow() }()
		case "garbage-frame", "oversize-header":
			// a frame that is not a valid ttRPC message, written straight onto the plugin-service connection
			p.fired.Store(rig.Tick())
			if c, err := rp.Mux.Open(multiplex.PluginServiceConn); err == nil {
				g := make([]byte, 10)
				if f.kind == "oversize-header" {
					binary.BigEndian.PutUint32(g[0:], 0x7fffffff) // absurd length
					binary.BigEndian.PutUint32(g[4:], 1)
					g[8] = 2
				} else {
					binary.BigEndian.PutUint32(g[0:], 0)
					binary.BigEndian.PutUint32(g[4:], uint32(2+f.k*2)) // even (server-initiated) stream id nobody opened
					g[8] = byte(0x7 + f.k)                             // unknown message type
				}
				c.Write(g)
			}
		case "unknown-conn":
			// a well-formed mux frame for a connection id nobody opened, written to the trunk
			p.fired.Store(rig.Tick())
			h := make([]byte, 8+5)
			binary.BigEndian.PutUint32(h[0:], uint32(99+f.k))
			binary.BigEndian.PutUint32(h[4:], 5)
			copy(h[8:], "hello")
			p.cut.Write(h)
		}
		return true, nil
	}
	reply := func(kind, id string) (*api.ContainerAdjustment, []*api.ContainerUpdate) {
		return c07Contribution(kind, id, pos)
	}
	rp.OnCreate = func(_ context.Context, r *api.CreateContainerRequest) (*api.CreateContainerResponse, error) {
		ok, err := before("create", r.Container.Id)
		if !ok {
			return nil, err
		}
		a, u := reply("create", r.Container.Id)
		return &api.CreateContainerResponse{Adjust: a, Update: u}, nil
	}
	rp.OnUpdate = func(_ context.Context, r *api.UpdateContainerRequest) (*api.UpdateContainerResponse, error) {
		ok, err := before("update", r.Container.Id)
		if !ok {
			return nil, err
		}
		_, u := reply("update", r.Container.Id)
		return &api.UpdateContainerResponse{Update: u}, nil
	}
	rp.OnStop = func(_ context.Context, r *api.StopContainerRequest) (*api.StopContainerResponse, error) {
		ok, err := before("stop", r.Container.Id)
		if !ok {
			return nil, err
		}
		_, u := reply("stop", r.Container.Id)
		return &api.StopContainerResponse{Update: u}, nil
	}
	rp.OnUpdatePod = func(_ context.Context, r *api.UpdatePodSandboxRequest) (*api.UpdatePodSandboxResponse, error) {
		ok, err := before("updatepod", r.Pod.Id)
		if !ok {
			return nil, err
		}
		return &api.UpdatePodSandboxResponse{}, nil
	}
	rp.OnStateChange = func(_ context.Context, r *api.StateChangeEvent) (*api.Empty, error) {
		id := r.Pod.GetId()
		if strings.HasPrefix(id, "warmup") {
			p.note(id)
			return &api.Empty{}, nil
		}
		ok, err := before("statechange", id)
		if !ok {
			return nil, err
		}
		return &api.Empty{}, nil
	}
	return p
}

func newHealthyPeer(pos int, idx string) *c07Peer {
	p := &c07Peer{pos: pos, idx: idx, seen: map[string]int{}}
	h := rig.Handlers{
		Any: func(e api.Event, pod *api.PodSandbox, ctr *api.Container) { p.note(pod.GetId()) },
		Create: func(_ context.Context, _ *api.PodSandbox, c *api.Container) (*api.ContainerAdjustment, []*api.ContainerUpdate, error) {
			a, u := c07Contribution("create", c.Id, pos)
			return a, u, nil
		},
		Update: func(_ context.Context, _ *api.PodSandbox, c *api.Container, _ *api.LinuxResources) ([]*api.ContainerUpdate, error) {
			_, u := c07Contribution("update", c.Id, pos)
			return u, nil
		},
		Stop: func(_ context.Context, _ *api.PodSandbox, c *api.Container) ([]*api.ContainerUpdate, error) {
			_, u := c07Contribution("stop", c.Id, pos)
			return u, nil
		},
	}
	p.stub = rig.NewPlugin(fmt.Sprintf("h%d", pos), idx, 0, h)
	return p
}

func runC07Case(dir string, cs c07Case, tag string, res *ev.Result) {
	what := cs
	viol := func(sig, msg string) { res.Violate("C07/"+sig, msg, what) }
	rt, err := rig.NewRuntime(dir)
	if err != nil {
		res.Note("runtime: %v", err)
		return
	}
	if err := rt.Start(); err != nil {
		res.Note("start: %v", err)
		return
	}
	var peers []*c07Peer
	defer func() {
		// tear down without ever blocking the check: after a detected hang NRI's locks may be held for good
		d := make(chan struct{})
		go func() {
			defer close(d)
			for _, p := range peers {
				if p.raw != nil {
					close(p.unhang)
					p.raw.Close()
				} else {
					p.stub.StopStub()
				}
			}
			rt.Stop()
		}()
		select {
		case <-d:
		case <-time.After(5 * time.Second):
			res.Count("teardowns_abandoned", 1)
		}
	}()
	faults := map[int]*c07Fault{cs.Pos: {kind: cs.Fault, k: cs.K}}
	if cs.Second != "" {
		faults[cs.Pos2] = &c07Fault{kind: cs.Second, k: cs.K}
	}
	for pos := 0; pos < cs.N; pos++ {
		idx := fmt.Sprintf("%02d", 10+pos*10)
		if f, ok := faults[pos]; ok {
			p := newFaultyPeer(pos, idx, f)
			if err := p.raw.Dial(rt.Sock, func(c net.Conn) net.Conn { p.cut = rig.NewCutConn(c); return p.cut }); err != nil {
				res.Note("dial: %v", err)
				return
			}
			if err := p.raw.Register(5 * time.Second); err != nil {
				res.Note("register: %v", err)
				return
			}
			peers = append(peers, p)
		} else {
			p := newHealthyPeer(pos, idx)
			if err := p.stub.Connect(rt.Sock); err != nil {
				res.Note("connect: %v", err)
				return
			}
			peers = append(peers, p)
		}
	}
	active := rig.WaitActive(rt, cs.N, func(id string) int {
		n := 0
		for _, p := range peers {
			if p.count(id) > 0 {
				n++
			}
		}
		return n
	}, 20*time.Second)
	if !active {
		res.Inconcl()
		res.Note("%s: plugins did not become active", tag)
		return
	}
	// arm the faults
	var faulty []*c07Peer
	for _, p := range peers {
		if p.fault == nil {
			continue
		}
		faulty = append(faulty, p)
		p.armed.Store(true)
		switch p.fault.kind {
		case "close-before":
			p.fired.Store(rig.Tick())
			p.cut.CutNow()
			time.Sleep(time.Duration(p.fault.k%3) * time.Millisecond)
		case "cut-request":
			p.fired.Store(rig.Tick())
			p.cut.ArmRead(p.cut.ReadN() + int64(p.fault.k))
		case "stall-large":
			p.fired.Store(rig.Tick())
			p.cut.ArmRead(p.cut.ReadN() + int64(p.fault.k))
			p.cut.StallOnCut(600 * time.Millisecond)
		case "stall-forever":
			// the peer stops reading for good and never closes; the 1 MiB request cannot be written out
			p.fired.Store(rig.Tick())
			p.cut.StallReads()
		case "flood-raw":
			// stop reading, then write thousands of protocol-violating request frames (even stream ids) straight
			// onto the runtime-service connection: the error replies pile up until NRI's receive queue overflows
			p.fired.Store(rig.Tick())
			p.cut.StallReads()
			if c, err := p.raw.Mux.Open(multiplex.RuntimeServiceConn); err == nil {
				go func() {
					fr := make([]byte, 10)
					for i := 0; i < 20000; i++ {
						binary.BigEndian.PutUint32(fr[0:], 0)
						binary.BigEndian.PutUint32(fr[4:], uint32(2*i+2))
						fr[8] = 1
						if _, err := c.Write(fr); err != nil {
							return
						}
					}
				}()
			}
			time.Sleep(300 * time.Millisecond)
		case "flood":
			// stop reading the socket, then flood the runtime-service connection with requests whose replies pile up
			p.fired.Store(rig.Tick())
			p.cut.StallReads()
			for i := 0; i < 600; i++ {
				go func(i int) {
					ctx, cancel := context.WithTimeout(context.Background(), 3*time.Second)
					defer cancel()
					p.raw.Runtime.UpdateContainers(ctx, &api.UpdateContainersRequest{Update: []*api.ContainerUpdate{{ContainerId: fmt.Sprintf("flood%d", i)}}})
				}(i)
			}
			time.Sleep(150 * time.Millisecond)
		}
	}
	nominal := time.Duration(cs.N)*reqTimeout + time.Second
	type out struct {
		contrib []string
		has     bool
		err     error
	}
	issue := func(id, kind string, largeKB int) (out, string) {
		var o out
		d := make(chan struct{})
		go func() { defer close(d); o.contrib, o.has, o.err = c07Send(rt.A, kind, id, largeKB) }()
		hard := c07Hard
		if 3*nominal > hard {
			hard = 3 * nominal // the heavy child: longer timeouts, larger requests
		}
		st := rig.Await(d, nominal, hard)
		return o, st
	}
	id1 := tag + "-r1"
	o1, st := issue(id1, cs.Req, cs.LargeKB)
	if st == "hang" {
		os.WriteFile(fmt.Sprintf("/verif/replays/C07.hang.%s.stacks.txt", tag), []byte(allStacks()), 0o644)
		viol("hang/request", fmt.Sprintf("the faulted %s request did not complete within %s (plugins x request timeout = %s); goroutines:\n%s", cs.Req, c07Hard+time.Second, nominal-time.Second, nriStacks()))
		return
	} else if st == "slow" {
		res.SlowOne()
	}
	var survivors []int
	for _, p := range peers {
		if p.fault == nil {
			survivors = append(survivors, p.pos)
		}
	}
	isVeto := cs.Fault == "veto" || cs.Second == "veto"
	if isVeto {
		vp := cs.Pos
		if cs.Fault != "veto" {
			vp = cs.Pos2
		}
		// unless an earlier transport fault... the veto plugin is invoked if it is still there
		if o1.err == nil {
			viol("veto-ignored", fmt.Sprintf("the handler of plugin %d returned an error but the %s request succeeded", vp, cs.Req))
		} else if !strings.Contains(o1.err.Error(), c07VetoText(cs.K, vp, id1)) {
			viol("veto-error-lost", fmt.Sprintf("the request failed with %q, which does not carry the handler's error", o1.err))
		}
		if o1.has || len(o1.contrib) > 0 {
			viol("veto-partial-result", fmt.Sprintf("a vetoed request returned a result: %v", o1.contrib))
		}
		for _, p := range peers {
			if p.pos > vp && p.count(id1) > 0 {
				viol("veto-later-plugin-invoked", fmt.Sprintf("plugin %d was invoked although plugin %d had vetoed the request", p.pos, vp))
			}
			if p.pos < vp && p.fault == nil && p.count(id1) != 1 {
				viol("survivor-invocations", fmt.Sprintf("plugin %d ahead of the vetoing one was invoked %d times", p.pos, p.count(id1)))
			}
		}
	} else {
		if o1.err != nil {
			viol("request-failed/"+cs.Fault, fmt.Sprintf("a plugin failed at transport level (%s at position %d of %d) and the %s request failed instead of dropping it: %v", cs.Fault, cs.Pos, cs.N, cs.Req, o1.err))
		} else {
			want := c07Want(cs.Req, id1, survivors)
			got := o1.contrib
			// a faulty plugin's contribution may be there only if complete: all or nothing
			extraOK := map[string]bool{}
			for _, p := range faulty {
				for _, c := range c07Want(cs.Req, id1, []int{p.pos}) {
					extraOK[c] = true
				}
			}
			var core []string
			for _, c := range got {
				if extraOK[c] {
					continue
				}
				core = append(core, c)
			}
			if strings.Join(core, "|") != strings.Join(want, "|") {
				viol("result-corrupted/"+cs.Fault, fmt.Sprintf("the result does not carry exactly the intact contributions of the remaining plugins: got %v want %v (+ optionally the failed plugin's complete contribution)", got, want))
			}
		}
		for _, p := range peers {
			if p.fault == nil && p.count(id1) != 1 {
				viol("survivor-invocations", fmt.Sprintf("healthy plugin %d was invoked %d times for the faulted request", p.pos, p.count(id1)))
			}
		}
	}
	// two healthy follow-up requests
	drops := map[int]bool{}
	for _, p := range faulty {
		if c07Transport[p.fault.kind] && p.fault.kind != "garbage-frame" && p.fault.kind != "oversize-header" {
			drops[p.pos] = true
		}
	}
	for _, p := range faulty {
		if p.fault.kind == "close-after-reply" {
			// the peer closes shortly after replying: wait until it actually has
			for i := 0; i < 5000 && !p.cut.WasCut(); i++ {
				time.Sleep(time.Millisecond)
			}
		}
		p.armed.Store(false)
		if (p.fault.kind == "cut-response" || p.fault.kind == "cut-request") && !p.cut.WasCut() {
			// the armed offset lies beyond the end of that message: nothing was cut, the plugin is healthy
			p.cut.ArmWrite(-1)
			p.cut.ArmRead(-1)
			drops[p.pos] = false
			res.Count("cut_offsets_beyond_message_end", 1)
		}
	}
	for i, kind := range []string{"create", cs.Req} {
		id := fmt.Sprintf("%s-f%d", tag, i)
		o, st := issue(id, kind, 0)
		if st == "hang" {
			viol("hang/follow-up", fmt.Sprintf("a healthy request after the fault did not complete; goroutines:\n%s", nriStacks()))
			return
		}
		if o.err != nil {
			viol("follow-up-failed/"+cs.Fault, fmt.Sprintf("a healthy %s request after the fault failed: %v", kind, o.err))
			continue
		}
		for _, p := range peers {
			if p.fault == nil && p.count(id) != 1 {
				viol("survivor-invocations", fmt.Sprintf("healthy plugin %d was invoked %d times for follow-up request %s", p.pos, p.count(id), id))
			}
		}
		want := c07Want(kind, id, survivors)
		var core []string
		for _, c := range o.contrib {
			keep := true
			for _, p := range faulty {
				if !drops[p.pos] {
					for _, w := range c07Want(kind, id, []int{p.pos}) {
						if w == c {
							keep = false
						}
					}
				}
			}
			if keep {
				core = append(core, c)
			}
		}
		if strings.Join(core, "|") != strings.Join(want, "|") {
			viol("follow-up-result", fmt.Sprintf("follow-up %s result %v, want the healthy plugins' %v", kind, o.contrib, want))
		}
	}
	for _, p := range faulty {
		// by request id, not by a counter: the handler of the faulted request itself may still be starting
		further := p.count(tag+"-f0") + p.count(tag+"-f1")
		if drops[p.pos] && further != 0 {
			viol("failed-plugin-still-served/"+p.fault.kind, fmt.Sprintf("plugin %d failed (%s) but received %d further requests", p.pos, p.fault.kind, further))
		}
	}
	res.Seen(fmt.Sprintf("%s|pos%d/%d|%s|k%d|second=%s", cs.Fault, cs.Pos, cs.N, cs.Req, cs.K, cs.Second))
}

func c07Cases(tier string, g *rand.Rand) []c07Case {
	var cs []c07Case
	thorough := tier == "thorough"
	positions := func(n int) []int { return []int{0, n / 2, n - 1} }
	simple := []string{"close-before", "close-on-receipt", "close-after-reply", "hang", "veto", "garbage-frame", "unknown-conn", "oversize-header"}
	for _, f := range simple {
		for _, req := range c07ReqKinds {
			n := 3 + g.IntN(3)
			for _, pos := range positions(n) {
				if f == "hang" && !thorough && pos != n/2 && req != "create" {
					continue // timeout cases are slow; the full cross product runs in the thorough tier
				}
				cs = append(cs, c07Case{Fault: f, Pos: pos, N: n, Req: req, K: g.IntN(4)})
			}
		}
	}
	for k := 0; k < 7; k++ {
		for _, req := range c07ReqKinds {
			if thorough || (k+len(req))%2 == 0 {
				cs = append(cs, c07Case{Fault: "veto", Pos: 1, N: 3, Req: req, K: k})
			}
		}
	}
	// cut after k bytes of the request / of the response
	maxK := 130
	for _, f := range []string{"cut-request", "cut-response"} {
		for _, req := range c07ReqKinds {
			for k := 0; k <= maxK; k++ {
				boundary := k <= 1 || (k >= 7 && k <= 9) || (k >= 17 && k <= 19) || k == maxK
				if !(thorough || boundary || k%7 == 3) {
					continue
				}
				if !thorough && req != "create" && req != "statechange" && !boundary {
					continue
				}
				n := 3
				cs = append(cs, c07Case{Fault: f, Pos: g.IntN(n), N: n, Req: req, K: k})
			}
		}
	}
	for _, k := range []int{0, 20, 5000, 200000} {
		cs = append(cs, c07Case{Fault: "stall-large", Pos: 1, N: 3, Req: "create", K: k, LargeKB: 512})
	}
	cs = append(cs, c07Case{Fault: "stall-forever", Pos: 0, N: 3, Req: "create", LargeKB: 512}, c07Case{Fault: "stall-forever", Pos: 2, N: 3, Req: "update", LargeKB: 512})
	cs = append(cs, c07Case{Fault: "flood-raw", Pos: 0, N: 3, Req: "create"}, c07Case{Fault: "flood-raw", Pos: 1, N: 3, Req: "statechange"})
	cs = append(cs, c07Case{Fault: "flood", Pos: 0, N: 3, Req: "create"}, c07Case{Fault: "flood", Pos: 1, N: 2, Req: "updatepod"})
	// two faulty plugins in one request
	pairs := [][2]string{{"close-on-receipt", "hang"}, {"cut-response", "close-before"}, {"close-after-reply", "veto"}, {"hang", "veto"}, {"cut-request", "cut-response"}}
	for _, p := range pairs {
		for _, req := range []string{"create", "update", "updatepod"} {
			cs = append(cs, c07Case{Fault: p[0], Pos: 0, N: 4, Req: req, K: 12, Second: p[1], Pos2: 2})
		}
	}
	return cs
}

// c07StubVetoes: three plugins built on the real stub; for each of the thirteen request kinds the middle
// one's handler returns an error: the request fails with that error, the first plugin was invoked once,
// the last one not at all, and the next request of the same kind (no error) reaches all three.
func c07StubVetoes(dir string, res *ev.Result, tag string) {
	rt, err := rig.NewRuntime(dir)
	if err != nil {
		res.Note("runtime: %v", err)
		return
	}
	if err := rt.Start(); err != nil {
		res.Note("start: %v", err)
		return
	}
	var mu sync.Mutex
	inv := map[string][]int{} // request id -> plugin positions invoked
	vetoID := ""
	var plugins []*rig.Plugin
	defer func() {
		rt.Stop()
		for _, p := range plugins {
			p.StopStub()
		}
	}()
	for pos := 0; pos < 3; pos++ {
		veto := func(id string) error {
			mu.Lock()
			defer mu.Unlock()
			inv[id] = append(inv[id], pos)
			if pos == 1 && id == vetoID {
				return fmt.Errorf("scripted veto of %s", id)
			}
			return nil
		}
		idOf := func(pod *api.PodSandbox, ctr *api.Container) string {
			if ctr != nil {
				return ctr.GetId()
			}
			return pod.GetId()
		}
		h := rig.Handlers{
			Event: func(_ context.Context, _ api.Event, pod *api.PodSandbox, ctr *api.Container) error {
				return veto(idOf(pod, ctr))
			},
			UpdatePod: func(_ context.Context, pod *api.PodSandbox, _, _ *api.LinuxResources) error { return veto(pod.GetId()) },
			Create: func(_ context.Context, _ *api.PodSandbox, ctr *api.Container) (*api.ContainerAdjustment, []*api.ContainerUpdate, error) {
				return nil, nil, veto(ctr.GetId())
			},
			Update: func(_ context.Context, _ *api.PodSandbox, ctr *api.Container, _ *api.LinuxResources) ([]*api.ContainerUpdate, error) {
				return nil, veto(ctr.GetId())
			},
			Stop: func(_ context.Context, _ *api.PodSandbox, ctr *api.Container) ([]*api.ContainerUpdate, error) {
				return nil, veto(ctr.GetId())
			},
		}
		p := rig.NewPlugin(fmt.Sprintf("v%d", pos), fmt.Sprintf("%02d", 10+10*pos), 0, h)
		plugins = append(plugins, p)
		if err := p.Connect(rt.Sock); err != nil || !p.WaitSynced(20*time.Second) {
			res.Note("%s: stub plugin %d did not register: %v", tag, pos, err)
			res.Inconcl()
			return
		}
	}
	for i, e := range allEvents {
		what := map[string]any{"scenario": "handler error in a stub-based plugin", "request": e.String(), "plugins": 3, "vetoing_position": 1}
		res.Eval()
		for round, id := range []string{fmt.Sprintf("%s-veto%d", tag, i), fmt.Sprintf("%s-after%d", tag, i)} {
			mu.Lock()
			if round == 0 {
				vetoID = id
			}
			mu.Unlock()
			b := rt.A.BlockPluginSync()
			_, err := c06Issue(rt.A, e, id)
			b.Unblock()
			mu.Lock()
			got := fmt.Sprint(inv[id])
			mu.Unlock()
			if round == 0 {
				if err == nil || !strings.Contains(err.Error(), "scripted veto of "+id) {
					res.Violate("C07/veto-ignored", fmt.Sprintf("the %s handler of the second of three stub plugins returned an error, the request returned %v", e, err), what)
				}
				if got != "[0 1]" {
					res.Violate("C07/veto-later-plugin-invoked", fmt.Sprintf("%s vetoed by the second plugin: plugins invoked %s, want [0 1]", e, got), what)
				}
			} else {
				if err != nil || got != "[0 1 2]" {
					res.Violate("C07/follow-up-failed/veto", fmt.Sprintf("%s after a vetoed one: error %v, plugins invoked %s, want none and [0 1 2]", e, err, got), what)
				}
			}
		}
		res.Seen("stub-veto|" + e.String())
	}
}

func runC07(c *ev.ChildEnv, res *ev.Result) {
	rig.QuietLogs()
	// the heavy cases (large requests, flooding peers) run in a child of their own, one rig at a time and
	// with a longer request timeout, so that a healthy plugin is not starved into a timeout on a loaded machine
	heavy := os.Getenv("VERIF_C07_HEAVY") != ""
	reqTimeout = c07ReqTimeout
	if heavy {
		reqTimeout = 3 * time.Second
	}
	adaptation.SetPluginRequestTimeout(reqTimeout)
	adaptation.SetPluginRegistrationTimeout(c07RegTimeout)
	if !heavy && c.Batch == 0 {
		c.WAL("stub vetoes")
		d := c.Dir + "/stubveto"
		mkdirAll(d)
		adaptation.SetPluginRequestTimeout(10 * time.Second)
		c07StubVetoes(d, res, "sv")
		adaptation.SetPluginRequestTimeout(reqTimeout)
	}
	g := rand.New(rand.NewPCG(uint64(c.Seed), 700)) // same list in every child
	cases := c07Cases(c.Tier, g)
	reps := tierN(c.Tier, 8, 40)
	if v := os.Getenv("VERIF_REPS"); v != "" {
		fmt.Sscan(v, &reps)
	}
	type job struct {
		cs  c07Case
		tag string
	}
	var jobs []job
	n := 0
	only := os.Getenv("VERIF_ONLY")
	isHeavy := func(f string) bool {
		return f == "stall-large" || f == "stall-forever" || f == "flood" || f == "flood-raw"
	}
	for i, cs := range cases {
		if only != "" && cs.Fault != only {
			continue
		}
		if isHeavy(cs.Fault) != heavy && !(heavy && isHeavy(cs.Second)) {
			continue
		}
		r := 1
		if strings.HasPrefix(cs.Fault, "cut-") || cs.Fault == "close-after-reply" {
			r = reps // schedule-sensitive: repeated
		}
		for rep := 0; rep < r; rep++ {
			n++
			if !heavy && n%(c.Batches-1) != c.Batch {
				continue
			}
			cs.Rep = rep
			jobs = append(jobs, job{cs, fmt.Sprintf("c%dr%d", i, rep)})
		}
	}
	// at most four rigs at a time: the short timeouts must not be starved
	// the rigs spend their time in handshakes and sleeps, not on the CPU (about 8 % of one core per child
	// measured), so twelve at a time do not starve the 500 ms timeout; the heavy child runs one at a time
	par := 12
	if heavy {
		par = 1
	}
	sem := make(chan struct{}, par)
	var wg sync.WaitGroup
	c.WAL("running %d fault cases", len(jobs))
	for _, j := range jobs {
		wg.Add(1)
		sem <- struct{}{}
		go func() {
			defer wg.Done()
			defer func() { <-sem }()
			if res.HangCount() >= 4 {
				return // every further hang costs a full hard bound
			}
			dir := fmt.Sprintf("%s/%s", c.Dir, j.tag)
			mkdirAll(dir)
			res.Eval()
			runC07Case(dir, j.cs, j.tag, res)
		}()
	}
	wg.Wait()
	// which transport errors did NRI see when it dropped plugins (from its own log)
	kinds := map[string]int{}
	for _, l := range rig.Log.Grep("closing plugin") {
		if i := strings.LastIndex(l, "request: "); i > 0 {
			kinds[l[i+9:]]++
		} else if i := strings.LastIndex(l, ": "); i > 0 {
			kinds[l[i+2:]]++
		}
	}
	for k, n := range kinds {
		res.Count("nri_dropped_plugin_because: "+k, int64(n))
	}
	res.Sample(map[string]any{"fault": "cut-response", "byte_offset": 12, "request": "create", "plugins": 3, "oracle": "request succeeds with the survivors' contributions (the failed plugin's only if complete), survivors invoked once, failed plugin served no further, two follow-up requests healthy"})
}

func init() {
	register(&Check{
		ID: "C07", Level: "fault_enumeration", MinNontriv: 40,
		Anchors: []string{"pkg/adaptation/plugin.go", "pkg/adaptation/adaptation.go", "pkg/net/multiplex/mux.go"},
		Rule:    "fault list against a real Adaptation with 2-5 plugins of which one or two are raw protocol peers behind the cut-wrapper: kind {peer closed before / on receipt / right after replying, connection cut after k bytes of the request or of the response (quick: header/frame boundaries plus a stride of 7; thorough: every k in 0..130), handler hanging past the 500 ms request timeout, malformed ttRPC frame, absurd frame length, mux frame for an unknown connection id, 1 MiB request with the peer stalling after k bytes, peer that stops reading and floods the runtime service, handler error} x position {first, middle, last} x request type {create, update, stop, update-pod, state change}, pairs of faulty plugins, each followed by two healthy requests; schedule-sensitive cases repeated and run under several CPU settings; oracles: transport fault => success with exactly the survivors' contributions (failed plugin's all-or-nothing), latency (slow/hang rule 15 s + 1 s), survivors invoked exactly once, failed plugin served no further; handler error => that error, no result, no later plugin; process liveness; plus three stub-based plugins of which the middle one vetoes each of the thirteen request kinds in turn; distinct = distinct (fault, position, request, offset) points",
		Assumptions: []string{
			"a cut of the runtime-to-plugin direction is applied at the peer's end of the real unix socket (NRI accepts its own connections); genuine partial writes on NRI's side are forced with 1 MiB requests",
			"a length field above 256 MiB is not injected (resource question no property states)",
			"at most four rigs run at a time per child so that the 500 ms timeout is not starved",
		},
		Plan: func(tier string) []ev.ChildSpec {
			var s []ev.ChildSpec
			for i := 0; i < tierN(tier, 4, 8); i++ {
				cs := cpuSettings[i%4]
				if cs.GOMAXPROCS == 1 { // one CPU starves four rigs with 500 ms timeouts: use two
					cs = cpuSettings[1]
				}
				s = append(s, ev.ChildSpec{GOMAXPROCS: cs.GOMAXPROCS, CPUs: cs.CPUs})
			}
			// last child: the heavy cases on their own
			s = append(s, ev.ChildSpec{ExtraEnv: []string{"VERIF_C07_HEAVY=1"}})
			return s
		},
		Parallel: func(string) int { return 5 },
		Watchdog: func(tier string) time.Duration {
			if tier == "thorough" {
				return 50 * time.Minute
			}
			return 8 * time.Minute
		},
		Run: runC07,
	})
}
