package main

// C12, lengths at the varint boundaries: every length-delimited field (string, bytes, map entry, repeated
// string, nested message) of every message is given contents whose encoded length runs through 118..136 and
// 16370..16390, so that the length prefix, the enclosing map entry and the enclosing message each cross the
// one-to-two and two-to-three byte boundary of their own varint (a size computation that sizes the prefix from
// the wrong quantity is off by one only there).

import (
	"fmt"
	"strings"

	"nriverif/internal/ev"

	"google.golang.org/protobuf/reflect/protoreflect"
)

func c12SweepLens(tier string) []int {
	var l []int
	for i := 118; i <= 136; i++ {
		l = append(l, i)
	}
	for i := 16370; i <= 16390; i++ {
		l = append(l, i)
	}
	return l
}

func c12Pad(n int) string {
	if n < 0 {
		n = 0
	}
	return strings.Repeat("v", n)
}

// c12SetLen gives the scalar field fd of m (string or bytes) contents of n bytes.
func c12SetLen(m protoreflect.Message, fd protoreflect.FieldDescriptor, n int) bool {
	switch fd.Kind() {
	case protoreflect.StringKind:
		m.Set(fd, protoreflect.ValueOfString(c12Pad(n)))
	case protoreflect.BytesKind:
		m.Set(fd, protoreflect.ValueOfBytes([]byte(c12Pad(n))))
	default:
		return false
	}
	return true
}

// firstLenField returns the first singular string/bytes field of a message descriptor.
func firstLenField(md protoreflect.MessageDescriptor) protoreflect.FieldDescriptor {
	fds := md.Fields()
	for i := 0; i < fds.Len(); i++ {
		fd := fds.Get(i)
		if !fd.IsList() && !fd.IsMap() && (fd.Kind() == protoreflect.StringKind || fd.Kind() == protoreflect.BytesKind) {
			return fd
		}
	}
	return nil
}

func c12LengthSweep(res *ev.Result, mt protoreflect.MessageType, tier string) {
	name := string(mt.Descriptor().Name())
	fds := mt.Descriptor().Fields()
	for i := 0; i < fds.Len(); i++ {
		fd := fds.Get(i)
		swept := 0
		for _, L := range c12SweepLens(tier) {
			m := mt.New()
			ok := false
			switch {
			case fd.IsMap():
				mp := m.Mutable(fd).Map()
				kd, vd := fd.MapKey(), fd.MapValue()
				if kd.Kind() != protoreflect.StringKind {
					break
				}
				key := protoreflect.ValueOfString("k01").MapKey()
				switch vd.Kind() {
				case protoreflect.StringKind:
					mp.Set(key, protoreflect.ValueOfString(c12Pad(L-3)))
					ok = true
				case protoreflect.BytesKind:
					mp.Set(key, protoreflect.ValueOfBytes([]byte(c12Pad(L-3))))
					ok = true
				case protoreflect.MessageKind:
					nested := mp.NewValue()
					if sf := firstLenField(vd.Message()); sf != nil {
						c12SetLen(nested.Message(), sf, L-6)
						mp.Set(key, nested)
						ok = true
					}
				}
				if ok && L%2 == 0 {
					// the key carries the length in every second case
					mp.Clear(key)
					mp.Set(protoreflect.ValueOfString(c12Pad(L-1)).MapKey(), mp.NewValue())
				}
			case fd.IsList():
				ls := m.Mutable(fd).List()
				switch fd.Kind() {
				case protoreflect.StringKind:
					ls.Append(protoreflect.ValueOfString(c12Pad(L)))
					ls.Append(protoreflect.ValueOfString("x"))
					ok = true
				case protoreflect.BytesKind:
					ls.Append(protoreflect.ValueOfBytes([]byte(c12Pad(L))))
					ok = true
				case protoreflect.MessageKind:
					el := ls.NewElement()
					if sf := firstLenField(fd.Message()); sf != nil {
						c12SetLen(el.Message(), sf, L-3)
						ls.Append(el)
						ok = true
					}
				}
			case fd.Kind() == protoreflect.MessageKind:
				if sf := firstLenField(fd.Message()); sf != nil {
					c12SetLen(m.Mutable(fd).Message(), sf, L-3)
					ok = true
				}
			default:
				ok = c12SetLen(m, fd, L)
			}
			if !ok {
				break
			}
			res.Eval()
			if c12Check(res, mt, m.Interface(), fmt.Sprintf("field %s with contents sized around %d bytes", fd.Name(), L)) {
				swept++
			}
		}
		if swept > 0 {
			res.Seen(fmt.Sprintf("%s|%s|length-sweep", name, fd.Name()))
			res.Count("length_sweep_messages", int64(swept))
		}
	}
}
