package main

// C08 — a registering plugin learns of each container exactly once; sync blocks hold it.

import (
	"context"
	"fmt"
	"math/rand/v2"
	"net"
	"strings"
	"sync"
	"sync/atomic"
	"time"

	"nriverif/internal/ev"
	"nriverif/internal/rig"

	"github.com/containerd/nri/pkg/adaptation"
	"github.com/containerd/nri/pkg/api"
	"github.com/containerd/nri/pkg/stub"
)

// shared with the process-wide hook; rounds run one after the other in a child
var (
	c08ZeroMoments atomic.Pointer[atomic.Int64]
	c08ReqZ        atomic.Int64
	c08MaxWait     atomic.Int64
)

type c08Plugin struct {
	p          *rig.Plugin
	pos        int
	mu         sync.Mutex
	snapshot   map[string]int
	created    map[string]int
	synced     int
	failSync   bool // its Synchronize handler fails: it never completes registration
	connectErr error
}

func runC08Round(dir string, g *rand.Rand, creators, nplugins, perCreator, failing int, res *ev.Result, tag string, hookOn, big bool) {
	what := map[string]any{"big_state": big, "round": tag, "creators": creators, "plugins": nplugins, "containers_per_creator": perCreator, "hooks": hookOn, "plugins_failing_sync": failing}
	rt, err := rig.NewRuntime(dir)
	if err != nil {
		res.Note("runtime: %v", err)
		return
	}
	// monitor state: blocks held vs synchronisations in progress
	var mon sync.Mutex
	held, inSync := 0, 0
	var syncWhileHeld, blockWhileSync atomic.Int64
	var zeroMoments atomic.Int64 // how often the number of held blocks dropped to zero
	c08MaxWait.Store(0)
	c08ZeroMoments.Store(&zeroMoments)
	defer c08ZeroMoments.Store(nil)
	var store sync.Mutex
	var ctrs []*api.Container
	pod := &api.PodSandbox{Id: "pod-" + tag, Name: "pod"}
	if big {
		// the store already holds more than one message can carry: every snapshot is sent in several
		// messages (one pod, many containers: the two lists run out at different moments)
		nb := 100
		if strings.HasSuffix(tag, "r9") {
			nb = 190 // three snapshot messages
		}
		for i := 0; i < nb; i++ {
			id := fmt.Sprintf("%s-ballast%d", tag, i)
			ctrs = append(ctrs, &api.Container{Id: id, PodSandboxId: pod.Id, Name: id, Env: []string{"PAD=" + payload(50<<10)}})
		}
	}
	rt.SyncFn = func(ctx context.Context, cb adaptation.SyncCB) error {
		mon.Lock()
		if held > 0 {
			syncWhileHeld.Add(1)
		}
		inSync++
		mon.Unlock()
		store.Lock()
		snap := append([]*api.Container(nil), ctrs...)
		store.Unlock()
		_, err := cb(ctx, []*api.PodSandbox{pod}, snap)
		mon.Lock()
		if held > 0 {
			syncWhileHeld.Add(1)
		}
		inSync--
		mon.Unlock()
		return err
	}
	if err := rt.Start(); err != nil {
		res.Note("start: %v", err)
		return
	}
	var plugins []*c08Plugin
	defer func() {
		rt.Stop()
		for _, p := range plugins {
			p.p.StopStub()
		}
	}()
	for i := 0; i < nplugins; i++ {
		cp := &c08Plugin{pos: i, snapshot: map[string]int{}, created: map[string]int{}}
		cp.failSync = failing > 0 && i%3 == 1
		h := rig.Handlers{
			Synchronize: func(_ context.Context, pods []*api.PodSandbox, cs []*api.Container) ([]*api.ContainerUpdate, error) {
				if cp.failSync {
					cp.mu.Lock()
					cp.synced++
					cp.mu.Unlock()
					return nil, fmt.Errorf("plugin %d refuses to synchronize", cp.pos)
				}
				cp.mu.Lock()
				cp.synced++
				for _, c := range cs {
					cp.snapshot[c.Id]++
				}
				cp.mu.Unlock()
				return nil, nil
			},
			Create: func(_ context.Context, _ *api.PodSandbox, c *api.Container) (*api.ContainerAdjustment, []*api.ContainerUpdate, error) {
				cp.mu.Lock()
				cp.created[c.Id]++
				cp.mu.Unlock()
				return nil, nil, nil
			},
		}
		cp.p = rig.NewPlugin(fmt.Sprintf("s%d", i), fmt.Sprintf("%02d", g.IntN(100)), evBit(api.Event_CREATE_CONTAINER), h)
		plugins = append(plugins, cp)
	}
	// ahead of everybody in the chain (index 00) sits a plugin that is registered but not subscribed to container
	// creation: a relay loop that stops at the first plugin with nothing to say would starve all the others
	bystander := rig.NewPlugin("bystander", "00", evBit(api.Event_START_CONTAINER), rig.Handlers{})
	if err := bystander.Connect(rt.Sock); err != nil || !bystander.WaitSynced(30*time.Second) {
		res.Note("%s: the bystander plugin did not come up: %v", tag, err)
	} else {
		res.Count("rounds_with_an_unsubscribed_plugin_first_in_the_chain", 1)
	}
	defer bystander.StopStub()
	create := func(id string, doubleUnblock bool) error {
		b := rt.A.BlockPluginSync()
		mon.Lock()
		if inSync > 0 {
			blockWhileSync.Add(1)
		}
		held++
		mon.Unlock()
		c := &api.Container{Id: id, PodSandboxId: pod.Id, Name: id}
		store.Lock()
		ctrs = append(ctrs, c)
		store.Unlock()
		_, err := rt.A.CreateContainer(context.Background(), &api.CreateContainerRequest{Pod: pod, Container: c})
		mon.Lock()
		held--
		if held == 0 {
			zeroMoments.Add(1)
		}
		mon.Unlock()
		b.Unblock()
		if doubleUnblock {
			b.Unblock()
		}
		return err
	}
	var cwg sync.WaitGroup
	var createErr atomic.Value
	var allSynced atomic.Bool
	go func() {
		for _, cp := range plugins {
			for synced := false; !synced; {
				select {
				case <-cp.p.SyncedCh():
					synced = true
				case <-time.After(50 * time.Millisecond):
					cp.mu.Lock()
					synced = cp.connectErr != nil
					cp.mu.Unlock()
				}
			}
		}
		allSynced.Store(true)
	}()
	for w := 0; w < creators; w++ {
		cwg.Add(1)
		go func(w int) {
			defer cwg.Done()
			// keep creating until every plugin has been synchronized (so that every registration overlaps
			// creation), at least perCreator and at most 40x that many containers
			for i := 0; i < perCreator*40; i++ {
				if i >= perCreator && allSynced.Load() {
					break
				}
				if err := create(fmt.Sprintf("%s-c%d-%d", tag, w, i), i%7 == 0); err != nil {
					createErr.Store(err)
				}
			}
		}(w)
	}
	// lifecycle events need no sync block: one goroutine relays StartContainer events meanwhile, a second one
	// rotates through the eleven other request kinds (each has its own relay function in the adaptation)
	evStop := make(chan struct{})
	var ewg sync.WaitGroup
	var otherKinds atomic.Int64
	for e := 0; e < 2; e++ {
		ewg.Add(1)
		go func(e int) {
			defer ewg.Done()
			for i := 0; ; i++ {
				select {
				case <-evStop:
					return
				default:
				}
				id := fmt.Sprintf("%s-ev%d-%d", tag, e, i)
				if e == 0 {
					rt.A.StartContainer(context.Background(), &api.StateChangeEvent{Pod: pod, Container: &api.Container{Id: id, PodSandboxId: pod.Id}})
				} else {
					// every other request a runtime relays without a sync block takes its turn
					c06Issue(rt.A, c08Unblocked[i%len(c08Unblocked)], id)
					otherKinds.Add(1)
				}
				if i%16 == 0 {
					time.Sleep(50 * time.Microsecond)
				}
			}
		}(e)
	}
	stopEvents := func() {
		close(evStop)
		ewg.Wait()
		res.Count("unblocked_requests_of_11_other_kinds_relayed_during_registrations", otherKinds.Load())
	}
	delays := make([]time.Duration, nplugins)
	for i := range delays {
		delays[i] = time.Duration(g.IntN(perCreator*300)) * time.Microsecond
	}
	var pwg sync.WaitGroup
	for _, cp := range plugins {
		pwg.Add(1)
		go func() {
			defer pwg.Done()
			time.Sleep(delays[cp.pos])
			if big && cp.pos == 0 && !cp.failSync {
				// this plugin's first connection is cut in the middle of the second synchronization message;
				// the same stub then registers again: what it accepted of the aborted snapshot must be forgotten
				if conn, err := net.Dial("unix", rt.Sock); err == nil {
					cut := rig.NewCutConn(conn)
					cut.ArmRead(4600 << 10)
					if err := cp.p.Connect(rt.Sock, stub.WithConnection(cut)); err == nil {
						if rig.Await(cp.p.ClosedCh(), 20*time.Second, 60*time.Second) != "hang" && cut.WasCut() {
							res.Count("registrations_cut_mid_snapshot", 1)
							if err := cp.p.Restart(); err != nil {
								cp.mu.Lock()
								cp.connectErr = err
								cp.mu.Unlock()
								res.Note("%s: plugin 0 did not get restarted: %v", tag, err)
							}
							return
						}
						res.Note("%s: plugin 0: the connection was not cut mid-snapshot (read %d bytes)", tag, cut.ReadN())
						return
					}
					conn.Close()
				}
			}
			err := cp.p.Connect(rt.Sock)
			for try := 0; err != nil && try < 3 && strings.Contains(err.Error(), "deadline exceeded"); try++ {
				// the stub's own 5 s registration timeout expired behind the runtime's serial accept loop:
				// nothing was registered; try again
				res.Count("stub_registration_timeouts_retried", 1)
				err = cp.p.Connect(rt.Sock)
			}
			if err != nil {
				// the stub's own registration timeout (5 s, not configurable before the first configuration) can
				// expire on a starved machine while the runtime's serial accept loop is busy: such a plugin never
				// completed registration; the round says nothing about it
				cp.mu.Lock()
				cp.connectErr = err
				cp.mu.Unlock()
				res.Note("%s: plugin %d did not get started: %v", tag, cp.pos, err)
			}
		}()
	}
	// every second round one more plugin speaks the protocol directly and answers Configure with an empty
	// mask, which the protocol defines as "every event" (a stub never sends 0: it substitutes what it implements)
	var raw *rig.RawPlugin
	var rawMu sync.Mutex
	var rawErr error
	rawSnap, rawCreated, rawSyncs := map[string]int{}, map[string]int{}, 0
	rawSynced := make(chan struct{})
	var rawOnce sync.Once
	if hashName(tag)%2 == 0 {
		raw = rig.NewRawPlugin("raw", fmt.Sprintf("%02d", g.IntN(100)), 0)
		raw.OnSynchronize = func(_ context.Context, req *api.SynchronizeRequest) (*api.SynchronizeResponse, error) {
			rawMu.Lock()
			for _, c := range req.Containers {
				rawSnap[c.Id]++
			}
			if !req.More {
				rawSyncs++
			}
			rawMu.Unlock()
			if !req.More {
				rawOnce.Do(func() { close(rawSynced) })
			}
			return &api.SynchronizeResponse{More: req.More}, nil
		}
		raw.OnCreate = func(_ context.Context, req *api.CreateContainerRequest) (*api.CreateContainerResponse, error) {
			rawMu.Lock()
			rawCreated[req.GetContainer().GetId()]++
			rawMu.Unlock()
			return &api.CreateContainerResponse{}, nil
		}
		rawDelay := time.Duration(g.IntN(perCreator*300)) * time.Microsecond
		pwg.Add(1)
		go func() {
			defer pwg.Done()
			time.Sleep(rawDelay)
			err := raw.Dial(rt.Sock, nil)
			if err == nil {
				err = raw.Register(15 * time.Second) // beyond that the round says nothing about this plugin (inconclusive)
			}
			if err != nil {
				rawMu.Lock()
				rawErr = err
				rawMu.Unlock()
				res.Note("%s: the raw plugin did not get registered: %v", tag, err)
			}
		}()
		defer raw.Close()
	}
	cdone := make(chan struct{})
	go func() { cwg.Wait(); pwg.Wait(); close(cdone) }()
	if st := rig.Await(cdone, 30*time.Second, 120*time.Second); st == "hang" {
		res.Violate("C08/hang/creation-or-registration", "creators or plugin starts did not finish; goroutines:\n"+nriStacks(), what)
		close(evStop)
		return
	}
	stopEvents()
	if e := createErr.Load(); e != nil {
		res.Violate("C08/create-error", fmt.Sprintf("a creation failed: %v", e), what)
	}
	// once the last block is released, pending registrations complete
	for _, cp := range plugins {
		cp.mu.Lock()
		failed := cp.connectErr != nil
		cp.mu.Unlock()
		if failed {
			res.Inconcl()
			continue
		}
		if st := rig.Await(cp.p.SyncedCh(), 5*time.Second, 60*time.Second); st == "hang" {
			res.Violate("C08/registration-stuck", fmt.Sprintf("plugin %d was not synchronized although no sync block is held any more; goroutines:\n%s", cp.pos, nriStacks()), what)
			return
		} else if st == "slow" {
			res.SlowOne()
		}
	}
	rawMu.Lock()
	rawFailed := rawErr != nil
	rawMu.Unlock()
	if raw != nil && rawFailed {
		res.Inconcl()
	}
	if raw != nil && !rawFailed {
		if st := rig.Await(rawSynced, 5*time.Second, 60*time.Second); st == "hang" {
			res.Violate("C08/registration-stuck", "the plugin answering Configure with an empty mask was not synchronized although no sync block is held any more; goroutines:\n"+nriStacks(), what)
			return
		} else if st == "slow" {
			res.SlowOne()
		}
	}
	// fence: everybody registered must receive it as a creation
	fence := tag + "-fence"
	deadline := time.Now().Add(30 * time.Second)
	for {
		// activation follows the snapshot inside the exclusive section; a creation issued now is
		// ordered after every completed synchronisation
		if err := create(fence, false); err != nil {
			res.Violate("C08/create-error", fmt.Sprintf("fence creation failed: %v", err), what)
		}
		break
	}
	_ = deadline
	if n := syncWhileHeld.Load(); n > 0 {
		res.Violate("C08/sync-while-block-held", fmt.Sprintf("the synchronisation callback ran %d times while a plugin-sync block was held", n), what)
	}
	if n := blockWhileSync.Load(); n > 0 {
		res.Violate("C08/block-granted-during-sync", fmt.Sprintf("a plugin-sync block was granted %d times while a synchronisation was in progress", n), what)
	}
	store.Lock()
	all := append([]*api.Container(nil), ctrs...)
	store.Unlock()
	overl := 0
	for _, cp := range plugins {
		cp.mu.Lock()
		if cp.connectErr != nil {
			cp.mu.Unlock()
			continue
		}
		if cp.failSync {
			if len(cp.created) > 0 {
				res.Violate("C08/activated-after-failed-sync", fmt.Sprintf("plugin %d failed its synchronization yet received %d creation requests", cp.pos, len(cp.created)), what)
			}
			res.Count("failed_synchronizations", 1)
			cp.mu.Unlock()
			continue
		}
		if cp.synced != 1 {
			res.Violate("C08/sync-count", fmt.Sprintf("plugin %d was synchronized %d times", cp.pos, cp.synced), what)
		}
		nsnap, nev := 0, 0
		for _, c := range all {
			s, e := cp.snapshot[c.Id], cp.created[c.Id]
			if s > 0 {
				nsnap++
			}
			if e > 0 {
				nev++
			}
			switch {
			case s+e == 0:
				res.Violate("C08/neither", fmt.Sprintf("plugin %d learned of container %s neither through its snapshot nor through a creation request", cp.pos, c.Id), what)
			case s+e > 1:
				res.Violate("C08/both", fmt.Sprintf("plugin %d learned of container %s %d times (snapshot %d, creation requests %d)", cp.pos, c.Id, s+e, s, e), what)
			}
		}
		if nsnap > 0 && nev > 1 {
			overl++
		}
		res.Seen(fmt.Sprintf("split|snap%d|events%d|big%v", bucket(nsnap), bucket(nev), big))
		cp.mu.Unlock()
	}
	if raw != nil && !rawFailed {
		rawMu.Lock()
		if rawSyncs != 1 {
			res.Violate("C08/sync-count", fmt.Sprintf("the plugin answering Configure with an empty mask was synchronized %d times", rawSyncs), what)
		}
		nsnap, nev := 0, 0
		for _, c := range all {
			s, e := rawSnap[c.Id], rawCreated[c.Id]
			if s > 0 {
				nsnap++
			}
			if e > 0 {
				nev++
			}
			switch {
			case s+e == 0:
				res.Violate("C08/neither", fmt.Sprintf("the plugin answering Configure with an empty mask (= every event) learned of container %s neither through its snapshot nor through a creation request", c.Id), what)
			case s+e > 1:
				res.Violate("C08/both", fmt.Sprintf("the plugin answering Configure with an empty mask learned of container %s %d times (snapshot %d, creation requests %d)", c.Id, s+e, s, e), what)
			}
		}
		rawMu.Unlock()
		res.Seen(fmt.Sprintf("raw-empty-mask|snap%d|events%d|big%v", bucket(nsnap), bucket(nev), big))
		res.Count("registrations_with_an_empty_configure_mask", 1)
	}
	// bounded progress (needs the sync.request hook): once a registration asks for the exclusive section it gets
	// its turn when the blocks held at that moment are released — the lock lets no new block in. Counted in
	// "all blocks released" moments between asking and getting, not in time.
	if w := c08MaxWait.Load(); w >= 0 {
		res.Max("max_all_blocks_released_moments_while_a_registration_waited", w)
		if w > 200 {
			res.Violate("C08/registration-starved", fmt.Sprintf("a registration waited for the exclusive synchronization section while all sync blocks were released %d times", w), what)
		}
	}
	res.Count("registrations", int64(len(plugins)))
	res.Count("registrations_overlapping_creation", int64(overl))
	res.Count("containers", int64(len(all)))
}

func bucket(n int) int {
	b := 0
	for n > 0 {
		n >>= 1
		b++
	}
	return b
}

// c08EarlyBlock: a sync block taken before Start() has brought the listener up holds registrations just
// like any other: the plugin that connects meanwhile is synchronized only after the block is released, and
// learns of the container created under the block exactly once.
func c08EarlyBlock(dir string, res *ev.Result, tag string) {
	what := map[string]any{"scenario": "sync block taken before Start"}
	mkdirAll(dir)
	rt, err := rig.NewRuntime(dir)
	if err != nil {
		res.Note("runtime: %v", err)
		return
	}
	res.Eval()
	var mu sync.Mutex
	var store []*api.Container
	held, started := true, false // Start() itself synchronizes its (here: no) pre-installed plugins once
	syncWhileHeld := 0
	rt.SyncFn = func(ctx context.Context, cb adaptation.SyncCB) error {
		mu.Lock()
		if held && started {
			syncWhileHeld++
		}
		snap := append([]*api.Container(nil), store...)
		mu.Unlock()
		_, err := cb(ctx, nil, snap)
		return err
	}
	b := rt.A.BlockPluginSync() // before Start
	if err := rt.Start(); err != nil {
		res.Note("start: %v", err)
		return
	}
	defer rt.Stop()
	mu.Lock()
	started = true
	mu.Unlock()
	snapshot, created := map[string]int{}, map[string]int{}
	p := rig.NewPlugin("early", "10", 0, rig.Handlers{
		Synchronize: func(_ context.Context, _ []*api.PodSandbox, cs []*api.Container) ([]*api.ContainerUpdate, error) {
			mu.Lock()
			for _, c := range cs {
				snapshot[c.Id]++
			}
			mu.Unlock()
			return nil, nil
		},
		Create: func(_ context.Context, _ *api.PodSandbox, c *api.Container) (*api.ContainerAdjustment, []*api.ContainerUpdate, error) {
			mu.Lock()
			created[c.Id]++
			mu.Unlock()
			return nil, nil, nil
		},
	})
	cerr := make(chan error, 1)
	go func() { cerr <- p.Connect(rt.Sock) }()
	defer p.StopStub()
	time.Sleep(150 * time.Millisecond) // the registration is pending now (or long done, if the block does not hold it)
	id := tag + "-under-early-block"
	ctr := &api.Container{Id: id, PodSandboxId: "p", Name: id}
	mu.Lock()
	store = append(store, ctr)
	mu.Unlock()
	cdone := make(chan struct{})
	go func() {
		defer close(cdone)
		_, err = rt.A.CreateContainer(context.Background(), &api.CreateContainerRequest{Pod: &api.PodSandbox{Id: "p"}, Container: ctr})
	}()
	if rig.Await(cdone, 5*time.Second, 30*time.Second) == "hang" {
		res.Violate("C08/hang/creation-or-registration", "a creation under a sync block taken before Start did not return while a registration was pending; goroutines:\n"+nriStacks(), what)
		return
	}
	mu.Lock()
	held = false
	mu.Unlock()
	b.Unblock()
	if err != nil {
		res.Violate("C08/create-error", fmt.Sprintf("creation under a sync block taken before Start failed: %v", err), what)
	}
	if e := <-cerr; e != nil {
		res.Note("%s: plugin did not get started: %v", tag, e)
		res.Inconcl()
		return
	}
	if rig.Await(p.SyncedCh(), 5*time.Second, 60*time.Second) == "hang" {
		res.Violate("C08/registration-stuck", "the plugin was not synchronized after the early sync block was released; goroutines:\n"+nriStacks(), what)
		return
	}
	rt.A.BlockPluginSync().Unblock()
	mu.Lock()
	defer mu.Unlock()
	if syncWhileHeld > 0 {
		res.Violate("C08/sync-while-block-held", "the synchronisation callback ran while a plugin-sync block taken before Start was held", what)
	}
	if n := snapshot[id] + created[id]; n != 1 {
		res.Violate(map[bool]string{true: "C08/neither", false: "C08/both"}[n == 0], fmt.Sprintf("the plugin learned of container %s %d times (snapshot %d, creation requests %d)", id, n, snapshot[id], created[id]), what)
	}
	res.Seen("early-block")
}

func runC08(c *ev.ChildEnv, res *ev.Result) {
	rig.QuietLogs()
	adaptation.SetPluginRequestTimeout(60 * time.Second)
	adaptation.SetPluginRegistrationTimeout(60 * time.Second)
	g := rand.New(rand.NewPCG(uint64(c.Seed), uint64(c.Batch)+800))
	var hookHits atomic.Int64
	var hookOn atomic.Bool
	hg := rand.New(rand.NewPCG(uint64(c.Seed), uint64(c.Batch)+801))
	var hmu sync.Mutex
	hooks := installAdaptationHook(func(point string) {
		if zm := c08ZeroMoments.Load(); zm != nil {
			switch point {
			case "sync.request":
				c08ReqZ.Store(zm.Load())
				return // never delayed: the count below starts here
			case "sync.exclusive":
				if d := zm.Load() - c08ReqZ.Load(); d > c08MaxWait.Load() {
					c08MaxWait.Store(d)
				}
			}
		}
		if !hookOn.Load() || !strings.HasPrefix(point, "sync.") {
			return
		}
		hookHits.Add(1)
		hmu.Lock()
		d := time.Duration(hg.IntN(2000)) * time.Microsecond
		hmu.Unlock()
		time.Sleep(d)
	})
	c.WAL("early block")
	c08EarlyBlock(c.Dir+"/early", res, fmt.Sprintf("c08e%d", c.Batch))
	rounds := tierN(c.Tier, 40, 600) / c.Batches
	for i := 0; i < rounds; i++ {
		tag := fmt.Sprintf("c08b%dr%d", c.Batch, i)
		creators, nplugins, per := 1+g.IntN(8), 2+g.IntN(5), 10+g.IntN(40)
		on := hooks && i%2 == 0
		hookOn.Store(on)
		c.WAL("round %s creators=%d plugins=%d per=%d hooks=%v", tag, creators, nplugins, per, on)
		dir := fmt.Sprintf("%s/r%d", c.Dir, i)
		mkdirAll(dir)
		res.Eval()
		failing := i % 2
		big := i%5 == 4
		if big {
			nplugins = min(nplugins, 3)
		}
		runC08Round(dir, g, creators, nplugins, per, failing, res, tag, on, big)
		if i == 0 {
			res.Sample(map[string]any{"round": tag, "creators": creators, "plugins": nplugins, "containers_per_creator": per, "hooks": on,
				"oracle": "for every registered plugin and every container of the final store: [in snapshot] + #creation requests = 1; no sync while a block is held"})
		}
	}
	hookOn.Store(false)
	res.Count("hook_hits", hookHits.Load())
}

func init() {
	register(&Check{
		ID: "C08", Level: "exploration", MinNontriv: 3,
		Anchors: []string{"pkg/adaptation/adaptation.go"},
		Rule:    "rounds with 1-8 creator goroutines (BlockPluginSync; add to store; CreateContainer; Unblock, sometimes twice) and 2-6 stub plugins registering at seeded moments while creation runs, hook yields of 0-2 ms at the three synchronisation points in every other round; offline exactly-once oracle over snapshot ids and creation ids against the runtime's own store incl. a fence creation, online monitor of blocks held vs synchronisations in progress (both directions), bounded completion of pending registrations; a registered plugin not subscribed to creation sits first in the chain (index 00); every second round one more plugin that speaks the protocol directly and answers Configure with an empty mask (= every event) under the same exactly-once oracle; meanwhile two goroutines relay requests that need no sync block (one StartContainer, one rotating through the eleven other kinds besides CreateContainer, each with its own relay function) under the race detector; every fifth round with 100 (one round: 190) ballast containers of 50 KiB under one pod so that snapshots are split in two (three) messages, plugin 0 there losing its first connection inside the second snapshot message and registering again with the same stub; one scenario per child with a sync block taken before Start and held across a registration and a creation; bounded-progress monitor between the hooks sync.request and sync.exclusive (all-blocks-released moments while a registration waits; alarm above 200); distinct = distinct (snapshot size bucket, event count bucket) splits observed per registration",
		Assumptions: []string{
			"the runtime performs each creation together with its bookkeeping inside one plugin-sync block, as the documented contract requires",
			"request/registration timeouts are set to 60 s so that a loaded machine cannot make a healthy plugin look dead",
		},
		Plan: func(tier string) []ev.ChildSpec {
			var s []ev.ChildSpec
			for i := 0; i < 4; i++ {
				s = append(s, ev.ChildSpec{GOMAXPROCS: cpuSettings[i].GOMAXPROCS, CPUs: cpuSettings[i].CPUs})
			}
			return s
		},
		Parallel: func(string) int { return 4 },
		Run:      runC08,
	})
}

// c08Unblocked: the requests relayed without a sync block while registrations run (everything but
// CreateContainer, which the exactly-once oracle tracks, and StartContainer, which the first goroutine sends).
var c08Unblocked = []api.Event{
	api.Event_RUN_POD_SANDBOX, api.Event_UPDATE_POD_SANDBOX, api.Event_POST_UPDATE_POD_SANDBOX, api.Event_STOP_POD_SANDBOX,
	api.Event_REMOVE_POD_SANDBOX, api.Event_POST_CREATE_CONTAINER, api.Event_POST_START_CONTAINER, api.Event_UPDATE_CONTAINER,
	api.Event_POST_UPDATE_CONTAINER, api.Event_STOP_CONTAINER, api.Event_REMOVE_CONTAINER,
}
