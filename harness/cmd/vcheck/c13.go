package main

// C13 — applying an adjustment changes exactly what it names, deterministically.
// Reference interpreter over the canonical view vs. the project's generator; determinism by
// repeated application; mount parent-before-child order; everything else untouched.

import (
	"encoding/json"
	"fmt"
	"path/filepath"
	"sort"
	"strings"

	"nriverif/internal/ev"

	"github.com/containerd/nri/pkg/api"
	rspec "github.com/opencontainers/runtime-spec/specs-go"
	"google.golang.org/protobuf/proto"
)

var c13MountKeys = []string{"/", "/m0", "/m1", "/m1/", "/m1/sub", "/m1/sub/deep", "/m2", "/m2/x/y", "/etc/m4", "/etc", "rel/m5", "rel", "/m1//sub/", "//etc/", "/m2/./x//", "/verif-cdi/sub", "/verif-cdi/sub/deep"}

type c13Case struct {
	ID    string                   `json:"id"`
	Spec  *rspec.Spec              `json:"spec"`
	Adj   *api.ContainerAdjustment `json:"adjust"`
	Modes []string                 `json:"modes"`
}

// interpret applies adj to the canonical view of a spec, per the statement of C13.
func c13Interpret(v *CView, a *api.ContainerAdjustment) {
	// annotations: removals, then sets (a set wins over a removal of the same key)
	for k := range a.Annotations {
		if key, m := markedForRemoval(k); m {
			delete(v.Ann, key)
		}
	}
	for k, x := range a.Annotations {
		if _, m := markedForRemoval(k); !m {
			v.Ann[k] = x
		}
	}
	for _, e := range a.Env {
		if key, m := markedForRemoval(e.Key); m {
			delete(v.Env, key)
		}
	}
	for _, e := range a.Env {
		if _, m := markedForRemoval(e.Key); !m {
			v.Env[e.Key] = e.Value
		}
	}
	for _, m := range a.Mounts {
		if key, mk := markedForRemoval(m.Destination); mk {
			delete(v.Mounts, key)
		}
	}
	for _, m := range a.Mounts {
		if _, mk := markedForRemoval(m.Destination); !mk {
			v.Mounts[m.Destination] = mountStr(m)
		}
	}
	if len(a.Args) > 0 {
		v.Args = append([]string(nil), a.Args...)
	}
	for i, l := range hookLists(a.Hooks) {
		for _, h := range l {
			v.Hooks[i] = append(v.Hooks[i], hookStr(h))
		}
	}
	for _, l := range a.Rlimits {
		v.Rlimits = append(v.Rlimits, rlimitStr(l))
	}
	if len(a.CDIDevices) > 0 {
		s := v.Ann["verif.cdi"]
		for _, d := range a.CDIDevices {
			s += d.Name + ";"
		}
		v.Ann["verif.cdi"] = s
	}
	if l := a.Linux; l != nil {
		for _, d := range l.Devices {
			if key, mk := markedForRemoval(d.Path); mk {
				delete(v.Devs, key)
			}
		}
		for _, d := range l.Devices {
			if _, mk := markedForRemoval(d.Path); !mk {
				v.Devs[d.Path] = devStr(d)
			}
		}
		if l.CgroupsPath != "" {
			v.Cgroups = l.CgroupsPath
		}
		if l.OomScoreAdj != nil {
			v.Oom = fmt.Sprint(l.OomScoreAdj.Value)
		}
		rf := flattenRes(l.Resources)
		for _, it := range rf.items() {
			x, _ := rf.get(it)
			switch {
			case it == "mem.limit":
				v.Res.set("mem.limit", x)
				v.Res.set("mem.swap", x) // the repository's own suite asserts this coupling
			case it == "blockio":
				if x == "=" { // the empty class means "no class": the block I/O section is cleared
					delete(v.Res.S, "blockio")
				} else {
					v.Res.S["blockio"] = fmt.Sprint(hashName(strings.TrimPrefix(x, "=")))
				}
			case it == "rdt":
				if x == "=" {
					delete(v.Res.S, "rdt")
				} else {
					v.Res.S["rdt"] = strings.TrimPrefix(x, "=")
				}
			case generatorCarries(it):
				v.Res.set(it, x)
			}
		}
	}
}

// restOfSpec returns the spec as generic JSON with the families the view covers removed.
func restOfSpec(s *rspec.Spec) string {
	b, _ := json.Marshal(s)
	var m map[string]any
	json.Unmarshal(b, &m)
	delete(m, "annotations")
	delete(m, "mounts")
	delete(m, "hooks")
	if p, ok := m["process"].(map[string]any); ok {
		delete(p, "env")
		delete(p, "args")
		delete(p, "rlimits")
		delete(p, "oomScoreAdj")
	}
	if l, ok := m["linux"].(map[string]any); ok {
		delete(l, "devices")
		delete(l, "resources")
		delete(l, "cgroupsPath")
		delete(l, "intelRdt")
	}
	o, _ := json.Marshal(m)
	return string(o)
}

func mountOrderViolation(ms []rspec.Mount) string {
	clean := make([]string, len(ms))
	for i, m := range ms {
		clean[i] = filepath.Clean(m.Destination)
	}
	isParent := func(p, c string) bool {
		if p == c {
			return false
		}
		if p == "/" {
			return strings.HasPrefix(c, "/")
		}
		return strings.HasPrefix(c, p+"/")
	}
	for i := range ms {
		for j := range ms {
			if j > i && isParent(clean[j], clean[i]) {
				return fmt.Sprintf("mount %q (position %d) precedes the mount of its parent directory %q (position %d)", ms[i].Destination, i, ms[j].Destination, j)
			}
		}
	}
	return ""
}

func (g *mgen) genC13(id string) *c13Case {
	c := &c13Case{ID: id, Spec: g.genSpec(), Adj: &api.ContainerAdjustment{}}
	// richer mounts in the original
	c.Spec.Mounts = nil
	for _, k := range c13MountKeys {
		if g.chance(0.3) {
			c.Spec.Mounts = append(c.Spec.Mounts, g.mount(k).ToOCI(nil))
		}
	}
	a := c.Adj
	nops := 1 + g.rng.IntN(8)
	used := map[string]bool{}
	type lop struct {
		kind, key string
		mode      int
	}
	var lops []lop
	for j := 0; j < nops; j++ {
		k := kinds[g.rng.IntN(len(kinds))]
		if g.chance(0.5) {
			k = kinds[g.rng.IntN(4)] // annotation, env, mount, device
		}
		key := ""
		if k.keyed {
			key = g.pick(k.keys)
			if k.name == "mount" {
				key = g.pick(c13MountKeys)
			}
		}
		it := itemOf(k.name, key)
		if used[it] || k.name == "args" && g.chance(0.5) {
			continue
		}
		used[it] = true
		mode := 0
		if k.removable && k.name != "args" {
			x := g.rng.Float64()
			switch {
			case x < 0.2:
				mode = 1 // lone removal
			case x < 0.4:
				mode = 2 // marker then set
			case x < 0.6:
				mode = 3 // set then marker
			}
		}
		lops = append(lops, lop{k.name, key, mode})
		c.Modes = append(c.Modes, fmt.Sprintf("%s:%d", k.name, mode))
	}
	for _, x := range lops {
		switch x.mode {
		case 0:
			g.adjSet(a, x.kind, x.key, true)
		case 1:
			g.adjRemove(a, x.kind, x.key)
		case 2:
			g.adjRemove(a, x.kind, x.key)
			g.adjSet(a, x.kind, x.key, true)
		case 3:
			g.adjSet(a, x.kind, x.key, true)
			g.adjRemove(a, x.kind, x.key)
		}
	}
	if g.chance(0.15) {
		// decoy: removal of the different item named "-key" (wire "--key") must leave key alone
		k := kinds[g.rng.IntN(len(kinds))]
		if k.removable && k.keyed {
			g.adjRemove(a, k.name, "-"+g.pick(k.keys))
			c.Modes = append(c.Modes, k.name+":decoy")
		}
	}
	if g.chance(0.4) {
		// every hook kind, 0-2 hooks each, on specs that may already carry hooks of any kind
		a.Hooks = &api.Hooks{}
		for _, l := range []*[]*api.Hook{&a.Hooks.Prestart, &a.Hooks.CreateRuntime, &a.Hooks.CreateContainer, &a.Hooks.StartContainer, &a.Hooks.Poststart, &a.Hooks.Poststop} {
			for n := g.rng.IntN(3); n > 0; n-- {
				*l = append(*l, g.hook())
			}
		}
		c.Modes = append(c.Modes, "hooks")
	}
	sort.Strings(c.Modes)
	return c
}

func runC13(c *ev.ChildEnv, res *ev.Result) {
	n := tierN(c.Tier, 4000, 600000) / c.Batches
	reps := tierN(c.Tier, 16, 32)
	g := newMgen(uint64(c.Seed), uint64(c.Batch)+1300)
	for i := 0; i < n; i++ {
		cs := g.genC13(fmt.Sprintf("c13-b%d-%d", c.Batch, i))
		res.Eval()
		res.Seen(strings.Join(cs.Modes, ","))
		want := viewOfSpec(cs.Spec)
		c13Interpret(want, cs.Adj)
		var first string
		var firstSpec *rspec.Spec
		bad := false
		for rep := 0; rep < reps; rep++ {
			adj := proto.Clone(cs.Adj).(*api.ContainerAdjustment)
			if rep > 0 && len(adj.Annotations) > 1 {
				// rebuild the map with a different insertion order
				keys := make([]string, 0, len(adj.Annotations))
				for k := range adj.Annotations {
					keys = append(keys, k)
				}
				g.rng.Shuffle(len(keys), func(a, b int) { keys[a], keys[b] = keys[b], keys[a] })
				nm := make(map[string]string, len(keys))
				for _, k := range keys {
					nm[k] = adj.Annotations[k]
				}
				adj.Annotations = nm
			}
			out, err := applyAdjust(cs.Spec, adj)
			if err != nil {
				res.Violate("C13/generator-error", "Generator.Adjust failed: "+err.Error(), cs)
				bad = true
				break
			}
			b, _ := json.Marshal(out)
			if rep == 0 {
				first, firstSpec = string(b), out
				continue
			}
			if string(b) != first {
				da := diffView(viewOfSpec(firstSpec), viewOfSpec(out))
				fam := "order"
				for f := range da {
					fam = f
				}
				res.Violate("C13/nondeterministic/"+fam, fmt.Sprintf("the same spec and adjustment gave two different specs (application 0 vs %d): %v", rep, da), cs)
				bad = true
				break
			}
		}
		if !bad && firstSpec != nil {
			// the adjustment is an input: applying it does not change it, and the same object applied again (to
			// another copy of the spec) gives the same result
			same := proto.Clone(cs.Adj).(*api.ContainerAdjustment)
			o1, e1 := applyAdjust(cs.Spec, same)
			o2, e2 := applyAdjust(cs.Spec, same)
			b1, _ := json.Marshal(o1)
			b2, _ := json.Marshal(o2)
			if e1 != nil || e2 != nil || string(b1) != string(b2) || !proto.Equal(same, cs.Adj) {
				da := map[string]string{}
				if o1 != nil && o2 != nil {
					da = diffView(viewOfSpec(o1), viewOfSpec(o2))
				}
				res.Violate("C13/nondeterministic/reapplied", fmt.Sprintf("the same adjustment object applied twice: errors %v / %v, adjustment left unchanged: %v, differences between the two results: %v", e1, e2, proto.Equal(same, cs.Adj), da), cs)
				bad = true
			}
		}
		if bad || firstSpec == nil {
			continue
		}
		got := viewOfSpec(firstSpec)
		for fam, d := range diffView(want, got) {
			bad = true
			site := "set-or-remove"
			for _, m := range cs.Modes {
				if strings.HasPrefix(m, fam+":3") {
					site = "set-before-marker"
				} else if strings.HasPrefix(m, fam+":2") && site != "set-before-marker" {
					site = "marker-before-set"
				}
			}
			res.Violate(fmt.Sprintf("C13/differs/%s/%s", fam, site), "generator result differs from the reference interpretation of the adjustment: "+d, cs)
		}
		// the CDI injector is asked once, with all the names of the adjustment
		if calls, want := strings.Count(firstSpec.Annotations["verif.cdi"], "|")-strings.Count(cs.Spec.Annotations["verif.cdi"], "|"), min(len(cs.Adj.CDIDevices), 1); calls != want {
			bad = true
			res.Violate("C13/cdi-injection-calls", fmt.Sprintf("an adjustment with %d CDI devices made the generator call the CDI injector %d times (want %d: all names in one call)", len(cs.Adj.CDIDevices), calls, want), cs)
		}
		// every device the adjustment adds is made accessible: one allow rule with its type and numbers
		if d := deviceRuleDiff(cs.Spec, firstSpec, cs.Adj); d != "" {
			bad = true
			res.Violate("C13/device-rules", "the device-cgroup rules added for the injected devices do not match them: "+d, cs)
		}
		if len(cs.Adj.Mounts) > 0 {
			if v := mountOrderViolation(firstSpec.Mounts); v != "" {
				bad = true
				res.Violate("C13/mount-order", v, cs)
			}
			res.Count("cases_with_mount_adjustments", 1)
		}
		if a, b := restOfSpec(cs.Spec), restOfSpec(firstSpec); a != b {
			bad = true
			res.Violate("C13/untouched-changed", fmt.Sprintf("parts of the spec the adjustment does not name changed: before %s after %s", a, b), cs)
		}
		if !bad {
			res.Sample(map[string]any{"case": cs.ID, "modes": cs.Modes, "adjust": cs.Adj, "mounts_after": firstSpec.Mounts})
		}
	}
	res.Count("applications", int64(n*reps))
}

func init() {
	register(&Check{
		ID: "C13", Level: "exploration", MinNontriv: 50,
		Rule: "seeded random OCI specs (process+linux sections, nested/trailing-slash/relative mount destinations) x adjustments of 1-8 operations mixing set (0), lone removal (1), marker-then-set (2) and set-then-marker (3) over all adjustable fields; each applied 16 (quick) / 32 (thorough) times to fresh copies with reshuffled maps; compared with a reference interpreter, checked for identical results, parent-before-child mount order and untouched remainder; decoy removals (--key), hooks of all six kinds on specs that already carry hooks, doubly non-canonical parent destinations, boundary numbers (0, +-1, min, max); the same adjustment object applied twice (left unchanged, same result); the CDI injector called once per adjustment with all names; the harness CDI injector adds a mount of its own (parent of two mount keys); distinct = distinct multisets of (field kind:mode)",
		Assumptions: []string{
			"memory limit also sets swap (the repository's own TestGenerate asserts that coupling)",
			"mount options avoid rshared/rslave (the generator then inspects the host mount table)",
			"a memory limit of 0 and args with a leading empty string are not generated (outside what the statement defines)",
			"block-I/O / RDT classes and CDI names are made visible through harness resolvers",
		},
		Plan:     func(tier string) []ev.ChildSpec { return make([]ev.ChildSpec, tierN(tier, 4, 12)) },
		Parallel: func(string) int { return 12 },
		Run:      runC13,
	})
}

func ruleStr(r rspec.LinuxDeviceCgroup) string {
	maj, min := "*", "*"
	if r.Major != nil {
		maj = fmt.Sprint(*r.Major)
	}
	if r.Minor != nil {
		min = fmt.Sprint(*r.Minor)
	}
	return fmt.Sprintf("allow=%v %s %s:%s", r.Allow, r.Type, maj, min)
}

// deviceRuleDiff compares the rules added by the adjustment (as a multiset of allow/type/major/minor) with
// the devices it sets.
func deviceRuleDiff(before, after *rspec.Spec, a *api.ContainerAdjustment) string {
	var nb int
	if before.Linux != nil && before.Linux.Resources != nil {
		nb = len(before.Linux.Resources.Devices)
	}
	var added []string
	if after.Linux != nil && after.Linux.Resources != nil && len(after.Linux.Resources.Devices) >= nb {
		for _, r := range after.Linux.Resources.Devices[nb:] {
			added = append(added, ruleStr(r))
		}
	}
	var want []string
	for _, d := range a.GetLinux().GetDevices() {
		if _, marked := markedForRemoval(d.Path); !marked {
			want = append(want, fmt.Sprintf("allow=true %s %d:%d", d.Type, d.Major, d.Minor))
		}
	}
	sort.Strings(added)
	sort.Strings(want)
	if strings.Join(added, "|") != strings.Join(want, "|") {
		return fmt.Sprintf("rules added %v, devices set %v", added, want)
	}
	return ""
}
