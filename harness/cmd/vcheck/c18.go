package main

// C18 — pre-installed plugins are launched, configured and reaped as documented.

import (
	"context"
	"encoding/json"
	"fmt"
	"math/rand/v2"
	"net"
	"os"
	"os/exec"
	"path/filepath"
	"regexp"
	"sort"
	"strings"
	"sync"
	"time"

	"nriverif/internal/ev"
	"nriverif/internal/rig"

	"github.com/containerd/nri/pkg/adaptation"
	"github.com/containerd/nri/pkg/api"
)

type c18Entry struct {
	File     string  `json:"file"`
	Kind     string  `json:"kind"` // exec | noexec | dir
	ConfSpec *string `json:"conf_specific,omitempty"`
	ConfGen  *string `json:"conf_generic,omitempty"`
}

var c18NameRe = regexp.MustCompile(`^([0-9][0-9])-(.+)$`)

func (e c18Entry) parts() (idx, base string, ok bool) {
	m := c18NameRe.FindStringSubmatch(e.File)
	if m == nil {
		return "", "", false
	}
	return m[1], m[2], true
}

func (e c18Entry) mode() string {
	for _, m := range []string{"exitnow", "noreg", "syncfail", "cfgfail", "dielater", "dieafter", "dropidle"} {
		if strings.Contains(e.File, m) {
			return m
		}
	}
	return ""
}

func c18Dirs(tier string, g *rand.Rand) [][]c18Entry {
	var dirs [][]c18Entry
	str := func(s string) *string { return &s }
	// systematic
	dirs = append(dirs,
		nil,
		[]c18Entry{{File: "10-alpha", Kind: "exec"}},
		[]c18Entry{{File: "10-alpha", Kind: "exec", ConfSpec: str("specific-alpha"), ConfGen: str("generic-alpha")}, {File: "20-beta", Kind: "exec", ConfGen: str("generic-beta")},
			{File: "30-gamma", Kind: "exec", ConfSpec: str("specific-gamma")}, {File: "40-delta", Kind: "exec"}},
		[]c18Entry{{File: "90-last", Kind: "exec"}, {File: "05-first", Kind: "exec"}, {File: "50-mid-with-dashes", Kind: "exec", ConfSpec: str("x")}, {File: "50-other", Kind: "noexec"}, {File: "60-subdir", Kind: "dir"}},
		[]c18Entry{{File: "10-exitnow-a", Kind: "exec"}, {File: "20-good", Kind: "exec", ConfGen: str("g")}},
		[]c18Entry{{File: "10-noreg-a", Kind: "exec"}, {File: "20-good", Kind: "exec"}, {File: "30-also", Kind: "exec"}},
		[]c18Entry{{File: "10-good", Kind: "exec"}, {File: "15-syncfail-b", Kind: "exec"}, {File: "30-also", Kind: "exec"}},
		[]c18Entry{{File: "10-good", Kind: "exec"}, {File: "20-dielater-c", Kind: "exec"}, {File: "30-also", Kind: "exec", ConfSpec: str(""), ConfGen: str("generic-not-used")}},
		[]c18Entry{{File: "10-stubborn-a", Kind: "exec"}, {File: "20-good", Kind: "exec"}, {File: "30-stubborn-syncfail", Kind: "exec"}},
		[]c18Entry{{File: "10-dropidle-a", Kind: "exec"}, {File: "20-good", Kind: "exec"}},
		[]c18Entry{{File: "10-good", Kind: "exec"}, {File: "20-dropidle-b", Kind: "exec"}},
		[]c18Entry{{File: "10-good", Kind: "exec"}, {File: "20-dieafter-a", Kind: "exec"}, {File: "30-also", Kind: "exec"}},
		[]c18Entry{{File: "10-good", Kind: "exec"}, {File: "15-cfgfail-a", Kind: "exec", ConfGen: str("refused")}, {File: "30-also", Kind: "exec"}},
		[]c18Entry{{File: "10-reidx-a", Kind: "exec", ConfSpec: str("specific-reidx")}, {File: "50-mid", Kind: "exec"}, {File: "95-last", Kind: "exec"}},
		[]c18Entry{{File: "10-one", Kind: "exec"}, {File: "20-two", Kind: "exec"}, {File: "30-three", Kind: "exec"}, {File: "40-four", Kind: "exec"}, {File: "50-five", Kind: "exec"}},
		[]c18Entry{{File: "10-foo", Kind: "exec", ConfSpec: str("specific-10-foo"), ConfGen: str("generic-foo")}, {File: "20-foo", Kind: "exec", ConfGen: str("generic-foo")}},
		[]c18Entry{{File: "10-bar", Kind: "exec", ConfSpec: str("specific-10-bar")}, {File: "20-bar", Kind: "exec"}, {File: "30-bar", Kind: "exec", ConfSpec: str("specific-30-bar")}},
		[]c18Entry{{File: "00-a", Kind: "exec"}, {File: "99-z", Kind: "exec"}, {File: "notes.txt", Kind: "noexec"}, {File: "1-short", Kind: "noexec"}, {File: "bin", Kind: "dir"}},
		// indices that are not octal numerals (08, 09) between smaller and larger ones: the order is that of the two digits
		[]c18Entry{{File: "09-nine", Kind: "exec"}, {File: "05-five", Kind: "exec"}, {File: "08-eight", Kind: "exec"}, {File: "00-zero", Kind: "exec"}, {File: "10-ten", Kind: "exec"}, {File: "07-seven", Kind: "exec"}},
	)
	names := []string{"alpha", "alpha", "beta-x", "c", "logger", "stubborn-q", "dropidle-r", "very-long-name-with-many-dashes", "x.y", "UPPER", "exitnow-p", "noreg-p", "syncfail-p", "dielater-p", "cfgfail-p"}
	for i := 0; i < tierN(tier, 12, 1200); i++ {
		var d []c18Entry
		used := map[string]bool{}
		slow := 0
		for j, n := 0, g.IntN(9); j < n; j++ {
			nm := names[g.IntN(len(names))]
			if strings.Contains(nm, "noreg") {
				slow++
				if slow > 1 {
					nm = "plain"
				}
			}
			f := fmt.Sprintf("%02d-%s", g.IntN(100), nm)
			if used[f] {
				continue
			}
			used[f] = true
			e := c18Entry{File: f, Kind: []string{"exec", "exec", "exec", "exec", "noexec", "dir"}[g.IntN(6)]}
			if g.IntN(2) == 0 {
				e.ConfSpec = str(fmt.Sprintf("specific-%s-%d", nm, g.IntN(1000)))
			}
			if g.IntN(2) == 0 {
				e.ConfGen = str(fmt.Sprintf("generic-%s-%d", nm, g.IntN(1000)))
			}
			d = append(d, e)
		}
		dirs = append(dirs, d)
	}
	return dirs
}

type c18Report struct {
	Base string   `json:"base"`
	Pid  int      `json:"pid"`
	Args []string `json:"args"`
	Env  []string `json:"env"`
	FDs  []struct {
		FD   int    `json:"fd"`
		Link string `json:"link"`
	} `json:"fds"`
}

func procState(pid int) string {
	b, err := os.ReadFile(fmt.Sprintf("/proc/%d/stat", pid))
	if err != nil {
		return "gone"
	}
	s := string(b)
	if i := strings.LastIndex(s, ") "); i > 0 && i+2 < len(s) {
		return s[i+2 : i+3]
	}
	return "?"
}

func runC18Case(root, probe string, entries []c18Entry, tag string, res *ev.Result) {
	what := map[string]any{"case": tag, "directory": entries}
	viol := func(sig, msg string) { res.Violate("C18/"+sig, msg, what) }
	plugins, confd, reports := filepath.Join(root, "plugins"), filepath.Join(root, "conf.d"), filepath.Join(root, "reports")
	for _, d := range []string{plugins, confd, reports} {
		os.MkdirAll(d, 0o755)
	}
	genericOf := map[string]*string{}
	for i := range entries {
		if _, base, ok := entries[i].parts(); ok {
			if g, seen := genericOf[base]; seen {
				entries[i].ConfGen = g // one generic drop-in per name
			} else {
				genericOf[base] = entries[i].ConfGen
			}
		}
	}
	for _, e := range entries {
		p := filepath.Join(plugins, e.File)
		switch e.Kind {
		case "dir":
			os.MkdirAll(p, 0o755)
		default:
			if err := os.Link(probe, p); err != nil {
				b, _ := os.ReadFile(probe)
				os.WriteFile(p, b, 0o755)
			}
			if e.Kind == "noexec" {
				// a separate inode is needed to drop the exec bit
				os.Remove(p)
				b, _ := os.ReadFile(probe)
				os.WriteFile(p, b[:min(len(b), 4096)], 0o644)
			}
		}
		if idx, base, ok := e.parts(); ok {
			if e.ConfSpec != nil {
				os.WriteFile(filepath.Join(confd, idx+"-"+base+".conf"), []byte(*e.ConfSpec), 0o644)
			}
			if e.ConfGen != nil {
				os.WriteFile(filepath.Join(confd, base+".conf"), []byte(*e.ConfGen), 0o644)
			}
		}
	}
	// bait descriptors held by the runtime process
	bait1, _ := os.Open("/etc/hostname")
	bait2, _ := net.Listen("unix", filepath.Join(root, "bait.sock"))
	defer func() {
		if bait1 != nil {
			bait1.Close()
		}
		if bait2 != nil {
			bait2.Close()
		}
	}()
	ropts := []adaptation.Option{adaptation.WithPluginPath(plugins), adaptation.WithPluginConfigPath(confd)}
	if noExternal := hashName(tag)%3 == 0; noExternal {
		// pre-installed plugins only, no socket for external ones
		ropts = append(ropts, adaptation.WithDisabledExternalConnections())
		what["external_connections"] = "disabled"
	}
	rt, err := rig.NewRuntime(root, rig.WithAdaptationOptions(ropts...))
	if err != nil {
		res.Note("runtime: %v", err)
		return
	}
	var syncMu sync.Mutex
	var syncUpd []string
	syncCalls := 0
	rt.SyncDone = func(u []*api.ContainerUpdate, err error) {
		syncMu.Lock()
		defer syncMu.Unlock()
		syncCalls++
		for _, x := range u {
			syncUpd = append(syncUpd, x.GetContainerId())
		}
	}
	var serr error
	d := make(chan struct{})
	go func() { defer close(d); serr = rt.Start() }()
	if rig.Await(d, 10*time.Second, 60*time.Second) == "hang" {
		viol("hang/start", "Adaptation.Start did not return; goroutines:\n"+nriStacks())
		return
	}
	if serr != nil {
		viol("start-failed", fmt.Sprintf("Start failed: %v", serr))
		return
	}
	stopped := false
	stop := func() {
		if !stopped {
			stopped = true
			d := make(chan struct{})
			go func() { defer close(d); rt.Stop() }()
			if rig.Await(d, 10*time.Second, 30*time.Second) == "hang" {
				viol("hang/stop", "Adaptation.Stop did not return; goroutines:\n"+nriStacks())
			}
		}
	}
	defer stop()

	// expected sets
	var launched, working []c18Entry
	idleDrop := false
	for _, e := range entries {
		if _, _, ok := e.parts(); ok && e.Kind == "exec" {
			launched = append(launched, e)
			if m := e.mode(); m == "" || m == "dielater" || m == "dieafter" || m == "dropidle" {
				working = append(working, e)
			}
			if e.mode() == "dropidle" {
				idleDrop = true
			}
		}
	}
	// reports
	files, _ := filepath.Glob(filepath.Join(reports, "report.*.json"))
	byBase := map[string][]c18Report{}
	for _, f := range files {
		var r c18Report
		if b, err := os.ReadFile(f); err == nil && json.Unmarshal(b, &r) == nil {
			byBase[r.Base] = append(byBase[r.Base], r)
		}
	}
	expectFile := map[string]bool{}
	pids := map[string]int{}
	for _, e := range launched {
		expectFile[e.File] = true
		rs := byBase[e.File]
		if len(rs) != 1 {
			viol("launch-count", fmt.Sprintf("%s is an executable plugin file but was launched %d times", e.File, len(rs)))
			continue
		}
		r := rs[0]
		pids[e.File] = r.Pid
		idx, base, _ := e.parts()
		wantEnv := []string{"NRI_PLUGIN_IDX=" + idx, "NRI_PLUGIN_NAME=" + base, "NRI_PLUGIN_SOCKET=3"}
		gotEnv := append([]string(nil), r.Env...)
		sort.Strings(gotEnv)
		if strings.Join(gotEnv, "\n") != strings.Join(wantEnv, "\n") {
			viol("environment", fmt.Sprintf("%s was started with environment %q, want exactly %q", e.File, gotEnv, wantEnv))
		}
		var fds []string
		sock3 := false
		for _, fd := range r.FDs {
			fds = append(fds, fmt.Sprintf("%d=%s", fd.FD, fd.Link))
			if fd.FD == 3 && strings.HasPrefix(fd.Link, "socket:") {
				sock3 = true
			}
			if fd.FD > 3 {
				viol("descriptor-leak", fmt.Sprintf("%s inherited descriptor %d (%s) besides stdio and the pre-connected socket; all: %v", e.File, fd.FD, fd.Link, r.FDs))
			}
		}
		if !sock3 {
			viol("no-socket", fmt.Sprintf("%s: descriptor 3 is not a socket: %v", e.File, fds))
		}
		if len(r.Args) != 1 {
			viol("arguments", fmt.Sprintf("%s was started with arguments %q", e.File, r.Args))
		}
	}
	for b := range byBase {
		if !expectFile[b] {
			viol("launched-unexpected", fmt.Sprintf("%s is not an executable regular file named NN-name, yet it was launched", b))
		}
	}
	// configuration
	for _, e := range launched {
		if m := e.mode(); m == "exitnow" || m == "noreg" || m == "cfgfail" {
			continue
		}
		pid, ok := pids[e.File]
		if !ok {
			continue
		}
		want := ""
		if e.ConfSpec != nil {
			want = *e.ConfSpec
		} else if e.ConfGen != nil {
			want = *e.ConfGen
		}
		var got map[string]string
		b, err := os.ReadFile(filepath.Join(reports, fmt.Sprintf("config.%s.%d", e.File, pid)))
		if err != nil || json.Unmarshal(b, &got) != nil {
			viol("not-configured", fmt.Sprintf("%s was launched but never configured", e.File))
			continue
		}
		if got["config"] != want {
			src := "none"
			if e.ConfSpec != nil && e.ConfGen != nil {
				src = "both"
			} else if e.ConfSpec != nil {
				src = "specific"
			} else if e.ConfGen != nil {
				src = "generic"
			}
			viol("configuration/"+src, fmt.Sprintf("%s received configuration %q, want %q (drop-ins present: %s)", e.File, got["config"], want, src))
		}
	}
	// the updates the plugins return from the start-up synchronization reach the runtime: one per plugin
	// that was synchronized, none lost, none twice
	{
		var want []string
		for _, e := range launched {
			if m := e.mode(); m == "" || m == "dielater" || m == "dieafter" || m == "dropidle" {
				want = append(want, "syncupd-"+e.File)
			}
		}
		sort.Strings(want)
		syncMu.Lock()
		got := append([]string(nil), syncUpd...)
		calls := syncCalls
		syncMu.Unlock()
		sort.Strings(got)
		if calls == 1 && strings.Join(got, ",") != strings.Join(want, ",") {
			viol("sync-updates", fmt.Sprintf("updates returned by the pre-installed plugins' synchronization handlers that reached the runtime: %v, want one per synchronized plugin: %v", got, want))
		} else if calls != 1 {
			res.Note("%s: the runtime's synchronization function ran %d times during Start", tag, calls)
		}
	}
	// dropped plugins are killed
	for _, e := range launched {
		if m := e.mode(); m == "noreg" || m == "syncfail" || m == "cfgfail" {
			if pid, ok := pids[e.File]; ok {
				st := procState(pid)
				for i := 0; i < 200 && st != "gone" && st != "Z"; i++ {
					time.Sleep(5 * time.Millisecond)
					st = procState(pid)
				}
				if st != "gone" && st != "Z" {
					viol("dropped-not-killed/"+m, fmt.Sprintf("%s (pid %d) failed to %s and was skipped, but its process is still running (state %s)", e.File, pid, map[string]string{"noreg": "register", "syncfail": "synchronize", "cfgfail": "be configured"}[m], st))
				}
			}
		}
	}
	if idleDrop {
		// a plugin's connection goes away while the runtime is idle; the runtime is then stopped without any
		// request in between: everything launched must still be gone afterwards
		for i := 0; i < 400; i++ {
			if _, err := os.Stat(filepath.Join(reports, "dropped.log")); err == nil {
				break
			}
			time.Sleep(5 * time.Millisecond)
		}
		time.Sleep(50 * time.Millisecond)
		for _, e := range launched {
			if strings.Contains(e.File, "dropidle-b") {
				// ... or with one request in between: the runtime comes across the closed plugin while serving it,
				// takes it out of its chain there and then, and still has to get rid of the process
				rt.A.StartContainer(context.Background(), &api.StateChangeEvent{Pod: &api.PodSandbox{Id: "p"}, Container: &api.Container{Id: tag + "-ev", PodSandboxId: "p"}})
				time.Sleep(100 * time.Millisecond)
				res.Count("idle_drops_followed_by_a_request_before_stop", 1)
				break
			}
		}
	}
	// a creation request: everyone working is invoked, in index order, and contributes
	ctrID := tag + "-c1"
	if idleDrop {
		ctrID = ""
	}
	b := rt.A.BlockPluginSync()
	var rpl *api.CreateContainerResponse
	var cerr error
	if ctrID != "" {
		rpl, cerr = rt.A.CreateContainer(context.Background(), &api.CreateContainerRequest{Pod: &api.PodSandbox{Id: "p"}, Container: &api.Container{Id: ctrID, PodSandboxId: "p"}})
	}
	b.Unblock()
	if ctrID == "" {
	} else if cerr != nil {
		viol("request-failed", fmt.Sprintf("CreateContainer failed: %v", cerr))
	} else {
		var order []string
		if ob, err := os.ReadFile(filepath.Join(reports, "order."+ctrID+".log")); err == nil {
			lines := strings.Split(strings.TrimSpace(string(ob)), "\n")
			sort.Strings(lines) // timestamps first
			for _, l := range lines {
				if f := strings.Fields(l); len(f) == 2 {
					order = append(order, f[1])
				}
			}
		}
		want := []string{}
		for _, e := range working {
			want = append(want, e.File)
		}
		sort.Strings(want)
		got := append([]string(nil), order...)
		sort.Strings(got)
		if strings.Join(got, ",") != strings.Join(want, ",") {
			viol("invocation-set", fmt.Sprintf("plugins invoked for a creation request: %v, expected the working launched plugins %v", order, want))
		}
		for i := 1; i < len(order); i++ {
			if order[i-1][:2] > order[i][:2] {
				viol("index-order", fmt.Sprintf("pre-installed plugins were invoked in order %v", order))
				break
			}
		}
		for _, e := range working {
			if e.mode() == "" {
				if rpl.GetAdjust().GetAnnotations()["probe."+e.File] != ctrID {
					viol("contribution-missing", fmt.Sprintf("the adjustment of %s is missing from the reply", e.File))
				}
			}
		}
		// a plugin that died between two requests is skipped by the next one, of whatever kind, without affecting
		// the others: here a StopContainer
		died := false
		for _, e := range working {
			if e.mode() == "dieafter" {
				died = true
			}
		}
		if died {
			time.Sleep(250 * time.Millisecond)
			b := rt.A.BlockPluginSync()
			_, serr := rt.A.StopContainer(context.Background(), &api.StopContainerRequest{Pod: &api.PodSandbox{Id: "p"}, Container: &api.Container{Id: ctrID, PodSandboxId: "p"}})
			b.Unblock()
			var stopped []string
			if ob, err := os.ReadFile(filepath.Join(reports, "stoporder."+ctrID+".log")); err == nil {
				for _, l := range strings.Split(strings.TrimSpace(string(ob)), "\n") {
					if f := strings.Fields(l); len(f) == 2 {
						stopped = append(stopped, f[1])
					}
				}
			}
			sort.Strings(stopped)
			var wantStop []string
			for _, e := range working {
				if m := e.mode(); m == "" {
					wantStop = append(wantStop, e.File)
				}
			}
			sort.Strings(wantStop)
			if serr != nil || strings.Join(stopped, ",") != strings.Join(wantStop, ",") {
				viol("dead-plugin-affects-others", fmt.Sprintf("a StopContainer request after a pre-installed plugin died between requests returned %v and invoked %v, want no error and %v", serr, stopped, wantStop))
			}
		}
	}
	stop()
	// nothing launched is still running after Stop
	zombies := 0
	for f, pid := range pids {
		st := procState(pid)
		for i := 0; i < 400 && st != "gone" && st != "Z"; i++ {
			time.Sleep(5 * time.Millisecond)
			st = procState(pid)
		}
		switch st {
		case "gone":
		case "Z":
			zombies++
		default:
			viol("running-after-stop", fmt.Sprintf("%s (pid %d) is still running after Adaptation.Stop (state %s)", f, pid, st))
		}
	}
	res.Count("launched_plugins", int64(len(launched)))
	res.Count("zombies_of_self_exited_plugins", int64(zombies))
	modes := map[string]int{}
	confs := map[string]int{}
	for _, e := range launched {
		modes[e.mode()]++
		switch {
		case e.ConfSpec != nil && e.ConfGen != nil:
			confs["both"]++
		case e.ConfSpec != nil:
			confs["specific"]++
		case e.ConfGen != nil:
			confs["generic"]++
		default:
			confs["none"]++
		}
	}
	res.Seen(fmt.Sprintf("dir|launched%d|of%d|modes%v|confs%v", len(launched), len(entries), modes, confs))
}

func runC18(c *ev.ChildEnv, res *ev.Result) {
	rig.QuietLogs()
	adaptation.SetPluginRequestTimeout(2 * time.Second)
	adaptation.SetPluginRegistrationTimeout(1500 * time.Millisecond)
	probe := filepath.Join(c.Dir, "probe")
	build := exec.Command("go", "build", "-tags", "verif", "-o", probe, "./cmd/probe")
	build.Dir = filepath.Join(ev.VerifDir, "harness")
	if out, err := build.CombinedOutput(); err != nil {
		res.Note("building the probe plugin failed: %v %s", err, out)
		return
	}
	g := rand.New(rand.NewPCG(uint64(c.Seed), 1800))
	dirs := c18Dirs(c.Tier, g)
	for i, d := range dirs {
		if i%c.Batches != c.Batch {
			continue
		}
		tag := fmt.Sprintf("c18b%dd%d", c.Batch, i)
		c.WAL("directory %s %v", tag, d)
		root := filepath.Join(c.Dir, fmt.Sprintf("d%d", i))
		res.Eval()
		runC18Case(root, probe, d, tag, res)
		if i < 3 {
			res.Sample(map[string]any{"directory": d})
		}
	}
	// an executable whose name does not parse: the property is silent on it; only crashes would be reported
	if c.Batch == 0 {
		root := filepath.Join(c.Dir, "odd")
		os.MkdirAll(filepath.Join(root, "plugins"), 0o755)
		os.Link(probe, filepath.Join(root, "plugins", "README"))
		if rt, err := rig.NewRuntime(root, rig.WithAdaptationOptions(adaptation.WithPluginPath(filepath.Join(root, "plugins")))); err == nil {
			err := rt.Start()
			res.Note("executable with an unparseable name: Start returned %v (not asserted)", err)
			rt.Stop()
		}
	}
}

func init() {
	register(&Check{
		ID: "C18", Level: "fault_enumeration", MinNontriv: 8,
		Anchors: []string{"pkg/adaptation/adaptation.go", "pkg/adaptation/plugin.go", "pkg/net/socketpair.go", "pkg/net/socketpair_cloexec_linux.go", "pkg/net/conn.go", "pkg/stub/stub.go", "pkg/api/plugin.go"},
		Rule:    "generated plugin directories (fixed list plus seeded random: 0-8 entries among executables NN-name incl. names with several dashes, non-executables, subdirectories; drop-ins specific / generic / both / neither incl. an empty specific one; failure-mode plugins: exits at once, never registers, fails its synchronization, dies on the first request) served by a real Adaptation in a child process holding bait descriptors; the launched binary is a probe built on the real stub that reports its environment, arguments and descriptor table (read with raw system calls before any Go I/O), its configuration and its invocations; oracles: launched set = executable regular NN-name files, each once; environment exactly the three variables; descriptors {0,1,2,3} with 3 a socket; configuration = specific else generic else empty; creation request invokes exactly the working plugins in index order and carries their adjustments; plugins that fail to register or synchronize are not running afterwards; nothing is running after Stop; probes that fail their configuration, probes ignoring SIGTERM/SIGINT/SIGHUP, one update per probe from Synchronize (exactly one per synchronized plugin reaches the runtime at Start), Stop under the hang rule; a probe that registers under another index and name than its file (file order must hold); every third directory served with external connections disabled; a probe that dies between requests followed by a StopContainer; distinct = distinct directory shapes (launched count, failure modes, drop-in combinations); a plugin whose connection goes away while the runtime is idle, followed by Stop directly and, in a second directory, by one request and then Stop (nothing launched may be running afterwards)",
		Assumptions: []string{
			"a zombie left by a plugin that exited on its own is recorded, not asserted ('killed' is all the statement asks)",
			"an executable file whose name does not parse makes Start fail as a whole in the current code; the property is silent on that and it is exercised without assertions",
			"WebAssembly plugins cannot be built in this image and are not covered",
		},
		Plan:     func(tier string) []ev.ChildSpec { return make([]ev.ChildSpec, tierN(tier, 4, 8)) },
		Parallel: func(string) int { return 4 },
		Run:      runC18,
	})
}
