package main

// C06 — subscribed plugins get each event once, in index order, in one common order.

import (
	"context"
	"fmt"
	"hash/fnv"
	"math/rand/v2"
	"os"
	"sort"
	"strings"
	"sync"
	"sync/atomic"
	"time"

	"nriverif/internal/ev"
	"nriverif/internal/rig"

	"github.com/anishathalye/porcupine"
	"github.com/containerd/nri/pkg/adaptation"
	"github.com/containerd/nri/pkg/api"
)

var allEvents = []api.Event{
	api.Event_RUN_POD_SANDBOX, api.Event_UPDATE_POD_SANDBOX, api.Event_POST_UPDATE_POD_SANDBOX, api.Event_STOP_POD_SANDBOX,
	api.Event_REMOVE_POD_SANDBOX, api.Event_CREATE_CONTAINER, api.Event_POST_CREATE_CONTAINER, api.Event_START_CONTAINER,
	api.Event_POST_START_CONTAINER, api.Event_UPDATE_CONTAINER, api.Event_POST_UPDATE_CONTAINER, api.Event_STOP_CONTAINER,
	api.Event_REMOVE_CONTAINER,
}

func evBit(e api.Event) api.EventMask { return 1 << (e - 1) }

type c06Inv struct {
	Tick   int64
	Plugin int
	Event  api.Event
	Req    string
}

type c06Req struct {
	ID                string
	Event             api.Event
	Ticket, Call, Ret int64
	Err               error
	Echo              []string // request ids found in the response
	EchoFrom          []int    // plugin positions that contributed to the response
}

type c06Plugin struct {
	p    *rig.Plugin
	pos  int
	idx  string
	mask api.EventMask // as configured (0 = everything)
	late bool
	// vetoOK: this plugin's index is unique in the rig, so a veto by it has a defined effect
	vetoOK bool
}

func (p *c06Plugin) subscribed(e api.Event) bool {
	m := p.mask
	if m == 0 {
		m = api.ValidEvents
	}
	return m&evBit(e) != 0
}

func c06Veto(req string, pos int) bool {
	h := fnv.New32a()
	fmt.Fprintf(h, "%s/%d", req, pos)
	return h.Sum32()%40 == 0
}

// issue sends one lifecycle request of kind e with id and returns what came back.
func c06Issue(a *adaptation.Adaptation, e api.Event, id string) (echo []string, err error) {
	ctx := context.Background()
	pod := &api.PodSandbox{Id: id, Name: id, Namespace: "ns"}
	ctr := &api.Container{Id: id, PodSandboxId: id, Name: id}
	evt := &api.StateChangeEvent{Pod: pod, Container: ctr}
	switch e {
	case api.Event_RUN_POD_SANDBOX:
		err = a.RunPodSandbox(ctx, evt)
	case api.Event_UPDATE_POD_SANDBOX:
		_, err = a.UpdatePodSandbox(ctx, &api.UpdatePodSandboxRequest{Pod: pod, OverheadLinuxResources: &api.LinuxResources{}, LinuxResources: &api.LinuxResources{}})
	case api.Event_POST_UPDATE_POD_SANDBOX:
		err = a.PostUpdatePodSandbox(ctx, evt)
	case api.Event_STOP_POD_SANDBOX:
		err = a.StopPodSandbox(ctx, evt)
	case api.Event_REMOVE_POD_SANDBOX:
		err = a.RemovePodSandbox(ctx, evt)
	case api.Event_CREATE_CONTAINER:
		var rpl *api.CreateContainerResponse
		rpl, err = a.CreateContainer(ctx, &api.CreateContainerRequest{Pod: pod, Container: ctr})
		if rpl != nil {
			for k, v := range rpl.GetAdjust().GetAnnotations() {
				echo = append(echo, k+"="+v)
			}
			for _, u := range rpl.Update {
				echo = append(echo, "upd="+u.ContainerId)
			}
		}
	case api.Event_POST_CREATE_CONTAINER:
		err = a.PostCreateContainer(ctx, evt)
	case api.Event_START_CONTAINER:
		err = a.StartContainer(ctx, evt)
	case api.Event_POST_START_CONTAINER:
		err = a.PostStartContainer(ctx, evt)
	case api.Event_UPDATE_CONTAINER:
		var rpl *api.UpdateContainerResponse
		rpl, err = a.UpdateContainer(ctx, &api.UpdateContainerRequest{Pod: pod, Container: ctr, LinuxResources: &api.LinuxResources{}})
		if rpl != nil {
			for _, u := range rpl.Update {
				if u != nil {
					echo = append(echo, "upd="+u.ContainerId)
				}
			}
		}
	case api.Event_POST_UPDATE_CONTAINER:
		err = a.PostUpdateContainer(ctx, evt)
	case api.Event_STOP_CONTAINER:
		var rpl *api.StopContainerResponse
		rpl, err = a.StopContainer(ctx, &api.StopContainerRequest{Pod: pod, Container: ctr})
		if rpl != nil {
			for _, u := range rpl.Update {
				echo = append(echo, "upd="+u.ContainerId)
			}
		}
	case api.Event_REMOVE_CONTAINER:
		err = a.RemoveContainer(ctx, evt)
	}
	return
}

type c06Rig struct {
	rt      *rig.Runtime
	plugins []*c06Plugin
	mu      sync.Mutex
	log     []c06Inv
}

func (r *c06Rig) record(pos int, e api.Event, id string) {
	t := rig.Tick()
	r.mu.Lock()
	r.log = append(r.log, c06Inv{Tick: t, Plugin: pos, Event: e, Req: id})
	r.mu.Unlock()
}

func (r *c06Rig) newPlugin(pos int, idx string, mask api.EventMask, late bool) *c06Plugin {
	cp := &c06Plugin{pos: pos, idx: idx, mask: mask, late: late}
	veto := func(id string) error {
		if cp.vetoOK && c06Veto(id, pos) {
			return fmt.Errorf("veto by plugin %d of %s", pos, id)
		}
		return nil
	}
	h := rig.Handlers{
		Any: func(e api.Event, pod *api.PodSandbox, ctr *api.Container) {
			id := pod.GetId()
			if ctr != nil {
				id = ctr.GetId()
			}
			r.record(pos, e, id)
		},
		Event: func(_ context.Context, e api.Event, pod *api.PodSandbox, ctr *api.Container) error {
			id := pod.GetId()
			if ctr != nil {
				id = ctr.GetId()
			}
			return veto(id)
		},
		UpdatePod: func(_ context.Context, pod *api.PodSandbox, _, _ *api.LinuxResources) error { return veto(pod.GetId()) },
		Create: func(_ context.Context, pod *api.PodSandbox, ctr *api.Container) (*api.ContainerAdjustment, []*api.ContainerUpdate, error) {
			if err := veto(ctr.GetId()); err != nil {
				return nil, nil, err
			}
			a := &api.ContainerAdjustment{Annotations: map[string]string{fmt.Sprintf("echo.%d", pos): ctr.GetId()}}
			return a, nil, nil
		},
		Update: func(_ context.Context, pod *api.PodSandbox, ctr *api.Container, _ *api.LinuxResources) ([]*api.ContainerUpdate, error) {
			if err := veto(ctr.GetId()); err != nil {
				return nil, err
			}
			u := &api.ContainerUpdate{ContainerId: fmt.Sprintf("%s.t%d", ctr.GetId(), pos)}
			u.AddLinuxUnified("k", ctr.GetId())
			return []*api.ContainerUpdate{u}, nil
		},
		Stop: func(_ context.Context, pod *api.PodSandbox, ctr *api.Container) ([]*api.ContainerUpdate, error) {
			if err := veto(ctr.GetId()); err != nil {
				return nil, err
			}
			u := &api.ContainerUpdate{ContainerId: fmt.Sprintf("%s.t%d", ctr.GetId(), pos)}
			u.AddLinuxUnified("k", ctr.GetId())
			return []*api.ContainerUpdate{u}, nil
		},
	}
	cp.p = rig.NewPlugin(fmt.Sprintf("p%d", pos), idx, mask, h)
	return cp
}

// runC06Instance runs one rig: the given masks, traffic from R callers, late registrations.
func runC06Instance(dir string, g *rand.Rand, masks []api.EventMask, R, nreq int, res *ev.Result, tag string) {
	rt, err := rig.NewRuntime(dir)
	if err != nil {
		res.Note("runtime: %v", err)
		return
	}
	if err := rt.Start(); err != nil {
		res.Note("start: %v", err)
		return
	}
	r := &c06Rig{rt: rt}
	defer func() {
		rt.Stop()
		for _, p := range r.plugins {
			p.p.StopStub()
		}
	}()
	// indices: few distinct values so that ties and adjacent values occur
	idxPool := []string{"00", "01", "09", "10", "11", "50", "99", "05"}
	for pos, m := range masks {
		idx := idxPool[g.IntN(len(idxPool))]
		r.plugins = append(r.plugins, r.newPlugin(pos, idx, m, pos%2 == 1))
	}
	uniqueIdx := map[string]int{}
	for _, p := range r.plugins {
		uniqueIdx[p.idx]++
	}
	for _, p := range r.plugins {
		p.vetoOK = uniqueIdx[p.idx] == 1
	}
	// early plugins register (shuffled) before traffic
	order := g.Perm(len(r.plugins))
	for _, i := range order {
		if p := r.plugins[i]; !p.late {
			if err := p.p.Connect(rt.Sock); err != nil {
				res.Note("connect: %v", err)
				return
			}
		}
	}
	for _, p := range r.plugins {
		if !p.late && !p.p.WaitSynced(20*time.Second) {
			res.Note("%s: early plugin not synchronized", tag)
			res.Inconcl()
			return
		}
	}
	// traffic
	var reqMu sync.Mutex
	var reqs []*c06Req
	var wg sync.WaitGroup
	seq := 0
	evSeq := make([]api.Event, nreq)
	for i := range evSeq {
		evSeq[i] = allEvents[g.IntN(len(allEvents))]
	}
	delays := make([]time.Duration, len(r.plugins))
	for i := range delays {
		delays[i] = time.Duration(g.IntN(3000)) * time.Microsecond
	}
	next := func() (string, api.Event, bool) {
		reqMu.Lock()
		defer reqMu.Unlock()
		if seq >= nreq {
			return "", 0, false
		}
		seq++
		return fmt.Sprintf("%s-r%d", tag, seq), evSeq[seq-1], true
	}
	for w := 0; w < R; w++ {
		wg.Add(1)
		go func() {
			defer wg.Done()
			for {
				id, e, ok := next()
				if !ok {
					return
				}
				q := &c06Req{ID: id, Event: e}
				b := rt.A.BlockPluginSync()
				q.Ticket = rig.Tick()
				q.Call = q.Ticket
				q.Echo, q.Err = c06Issue(rt.A, e, id)
				q.Ret = rig.Tick()
				b.Unblock()
				reqMu.Lock()
				reqs = append(reqs, q)
				reqMu.Unlock()
			}
		}()
	}
	// late plugins register while traffic runs
	var lwg sync.WaitGroup
	for _, i := range order {
		if p := r.plugins[i]; p.late {
			lwg.Add(1)
			go func() {
				defer lwg.Done()
				time.Sleep(delays[p.pos])
				if err := p.p.Connect(rt.Sock); err != nil {
					res.Note("late connect: %v", err)
				}
			}()
		}
	}
	wg.Wait()
	lwg.Wait()
	// let pending registrations finish, then a fence request that everybody active must see
	for _, p := range r.plugins {
		if p.late && !p.p.WaitSynced(20*time.Second) {
			res.Note("%s: late plugin not synchronized", tag)
			res.Inconcl()
			return
		}
	}

	// phase 2: one plugin with at least two others behind it goes away; more requests follow without any
	// registration in between
	var stopTick int64
	victim := -1
	{
		sorted := append([]*c06Plugin(nil), r.plugins...)
		sort.SliceStable(sorted, func(i, j int) bool { return sorted[i].idx < sorted[j].idx })
		if len(sorted) >= 4 {
			v := sorted[g.IntN(len(sorted)-2)]
			victim = v.pos
			v.p.StopStub()
			select {
			case <-v.p.Closed:
			case <-time.After(5 * time.Second):
			}
			stopTick = rig.Tick()
			for i := 0; i < 12; i++ {
				id := fmt.Sprintf("%s-s%d", tag, i)
				q := &c06Req{ID: id, Event: allEvents[g.IntN(len(allEvents))]}
				if i == 0 {
					// the very first request after the departure (the departed plugin is still listed, marked closed)
					// is one of the three that collect results
					q.Event = []api.Event{api.Event_UPDATE_CONTAINER, api.Event_CREATE_CONTAINER, api.Event_STOP_CONTAINER}[g.IntN(3)]
				}
				b := rt.A.BlockPluginSync()
				q.Ticket = rig.Tick()
				q.Call = q.Ticket
				q.Echo, q.Err = c06Issue(rt.A, q.Event, id)
				q.Ret = rig.Tick()
				b.Unblock()
				reqs = append(reqs, q)
			}
			res.Count("requests_after_a_plugin_left", 12)
		}
	}

	// ------------------------------------------------------------------ oracles
	r.mu.Lock()
	log := append([]c06Inv(nil), r.log...)
	r.mu.Unlock()
	sort.Slice(log, func(i, j int) bool { return log[i].Tick < log[j].Tick })
	byReq := map[string][]c06Inv{}
	for _, inv := range log {
		byReq[inv.Req] = append(byReq[inv.Req], inv)
	}
	what := map[string]any{"instance": tag, "masks": masks, "callers": R}
	pl := func(pos int) string {
		p := r.plugins[pos]
		return fmt.Sprintf("plugin %d (index %s, mask 0x%x, late=%v)", pos, p.idx, int(p.mask), p.late)
	}
	// plugins in invocation order (index, ties unordered)
	sorted := append([]*c06Plugin(nil), r.plugins...)
	sort.SliceStable(sorted, func(i, j int) bool { return sorted[i].idx < sorted[j].idx })
	overlaps := 0
	for i, q := range reqs {
		for _, o := range reqs[i+1:] {
			if q.Call < o.Ret && o.Call < q.Ret {
				overlaps++
			}
		}
	}
	res.Count("overlapping_call_pairs", int64(overlaps))
	keys := map[string]int64{}
	for _, q := range reqs {
		invs := byReq[q.ID]
		count := map[int]int{}
		for _, inv := range invs {
			count[inv.Plugin]++
			if inv.Event != q.Event {
				res.Violate("C06/wrong-event", fmt.Sprintf("%s received event %v for request %s which was a %v", pl(inv.Plugin), inv.Event, q.ID, q.Event), what)
			}
			if inv.Tick < q.Call || inv.Tick > q.Ret {
				res.Violate("C06/outside-call", fmt.Sprintf("%s handled %s outside the caller's call window", pl(inv.Plugin), q.ID), what)
			}
		}
		if len(invs) > 0 {
			keys[q.ID] = invs[0].Tick
		}
		// expected invocations
		vetoed := false
		var expectEcho []string
		for _, p := range sorted {
			active := q.Ticket > p.p.SyncTick.Load() && p.p.SyncTick.Load() != 0
			if p.pos == victim && q.Ticket > stopTick {
				active = false // it has left
			}
			want := 0
			if active && p.subscribed(q.Event) && !vetoed {
				want = 1
			}
			if got := count[p.pos]; got != want {
				kind := "missed"
				if got > want {
					kind = "extra"
				}
				why := fmt.Sprintf("subscribed=%v active=%v vetoed-earlier=%v", p.subscribed(q.Event), active, vetoed)
				res.Violate(fmt.Sprintf("C06/%s-invocation/%v", kind, subscribedWord(p.subscribed(q.Event))),
					fmt.Sprintf("%s was invoked %d times for %v request %s, expected %d (%s)", pl(p.pos), got, q.Event, q.ID, want, why), what)
			}
			if want == 1 {
				if p.vetoOK && c06Veto(q.ID, p.pos) {
					vetoed = true
				} else {
					switch q.Event {
					case api.Event_CREATE_CONTAINER:
						expectEcho = append(expectEcho, fmt.Sprintf("echo.%d=%s", p.pos, q.ID))
					case api.Event_UPDATE_CONTAINER, api.Event_STOP_CONTAINER:
						expectEcho = append(expectEcho, fmt.Sprintf("upd=%s.t%d", q.ID, p.pos))
					}
				}
			}
		}
		if vetoed {
			res.Count("vetoed_requests", 1)
			if q.Err == nil {
				res.Violate("C06/veto-ignored", fmt.Sprintf("request %s was vetoed by a plugin but returned success", q.ID), what)
			}
		} else if q.Err != nil {
			res.Violate("C06/unexpected-error", fmt.Sprintf("request %s failed: %v", q.ID, q.Err), what)
		} else {
			// own result: exactly the contributions of the plugins invoked for this request
			for _, e := range q.Echo {
				if !strings.Contains(e, q.ID+".") && !strings.HasSuffix(e, "="+q.ID) {
					res.Violate("C06/foreign-result", fmt.Sprintf("caller of %s received a result belonging to another request: %s", q.ID, e), what)
				}
			}
			got := append([]string(nil), q.Echo...)
			sort.Strings(got)
			sort.Strings(expectEcho)
			if strings.Join(got, ",") != strings.Join(expectEcho, ",") {
				res.Violate("C06/result-mismatch", fmt.Sprintf("request %s: response carries %v, the invoked plugins returned %v", q.ID, got, expectEcho), what)
			}
		}
		// index order within the request
		for i := 1; i < len(invs); i++ {
			a, b := r.plugins[invs[i-1].Plugin], r.plugins[invs[i].Plugin]
			if a.idx > b.idx {
				res.Violate("C06/index-order", fmt.Sprintf("for request %s %s was invoked before %s", q.ID, pl(a.pos), pl(b.pos)), what)
			}
		}
	}
	// one common order: every plugin sees requests in the order of their first handler tick
	last := map[int]int64{}
	lastReq := map[int]string{}
	for _, inv := range log {
		k := keys[inv.Req]
		if k < last[inv.Plugin] {
			res.Violate("C06/order-disagreement", fmt.Sprintf("%s saw request %s after %s, other plugins saw them in the opposite order", pl(inv.Plugin), inv.Req, lastReq[inv.Plugin]), what)
		}
		last[inv.Plugin], lastReq[inv.Plugin] = k, inv.Req
	}
	// ... and requests never interleave: all handlers of one request run before any handler of the next
	cur := ""
	doneReq := map[string]bool{}
	for _, inv := range log {
		if inv.Req != cur {
			if doneReq[inv.Req] {
				res.Violate("C06/interleaved-requests", fmt.Sprintf("handlers of request %s are interleaved with handlers of %s", inv.Req, cur), what)
			}
			doneReq[cur] = true
			cur = inv.Req
		}
	}
	// real time: a request that returned before another was called is ordered first
	var ordered []*c06Req
	for _, q := range reqs {
		if _, ok := keys[q.ID]; ok {
			ordered = append(ordered, q)
		}
	}
	sort.Slice(ordered, func(i, j int) bool { return keys[ordered[i].ID] < keys[ordered[j].ID] })
	var maxCall int64
	h := fnv.New64a()
	for _, q := range ordered {
		if maxCall > q.Ret {
			res.Violate("C06/realtime-order", fmt.Sprintf("request %s returned at tick %d yet plugins saw it after a request that was only called at tick %d", q.ID, q.Ret, maxCall), what)
		}
		if q.Call > maxCall {
			maxCall = q.Call
		}
		fmt.Fprint(h, q.ID[len(tag):], ",")
	}
	if R > 1 && len(ordered) > 2 {
		res.Seen(fmt.Sprintf("serialisation|%x", h.Sum64()))
	}
	// porcupine: sequencer model on windows of <= 64 operations
	for lo := 0; lo < len(ordered); lo += 64 {
		hi := min(lo+64, len(ordered))
		var ops []porcupine.Operation
		for i, q := range ordered[lo:hi] {
			ops = append(ops, porcupine.Operation{ClientId: i % 64, Input: q.ID, Call: q.Call, Return: q.Ret, Output: i + 1})
		}
		switch porcupine.CheckOperationsTimeout(seqModel, ops, 2*time.Second) {
		case porcupine.Illegal:
			res.Violate("C06/not-serialisable", "the call/return history with the order plugins observed is not a linearizable sequencer history", what)
		case porcupine.Unknown:
			res.Count("porcupine_unknown", 1)
		default:
			res.Count("porcupine_windows_ok", 1)
		}
	}
	res.Count("requests", int64(len(reqs)))
	res.Count("handler_invocations", int64(len(log)))
	lateOverlap := 0
	for _, p := range r.plugins {
		if p.late {
			st := p.p.SyncTick.Load()
			before, after := false, false
			for _, q := range reqs {
				if q.Ticket < st {
					before = true
				} else {
					after = true
				}
			}
			if before && after {
				lateOverlap++
			}
		}
	}
	res.Count("registrations_during_traffic", int64(lateOverlap))
	for _, m := range masks {
		res.Seen(fmt.Sprintf("mask|0x%x", int(m)))
	}
}

// c06Unblocked: lifecycle events need no plugin-sync block. Callers relay events without one while many
// plugins register, each with a lower index than everybody before: for every request the plugins invoked
// were invoked at most once and in index order, and the plugins registered before the traffic exactly once.
func c06Unblocked(dir string, res *ev.Result, tag string, nlate, callers int) {
	what := map[string]any{"scenario": "events relayed without sync blocks while plugins register in descending index order", "registrations": nlate, "callers": callers}
	mkdirAll(dir)
	rt, err := rig.NewRuntime(dir)
	if err != nil {
		res.Note("runtime: %v", err)
		return
	}
	if err := rt.Start(); err != nil {
		res.Note("start: %v", err)
		return
	}
	r := &c06Rig{rt: rt}
	defer func() {
		rt.Stop()
		for _, p := range r.plugins {
			p.p.StopStub()
		}
	}()
	res.Eval()
	for pos, idx := range []string{"90", "95"} {
		p := r.newPlugin(pos, idx, 0, false)
		r.plugins = append(r.plugins, p)
		if err := p.p.Connect(rt.Sock); err != nil || !p.p.WaitSynced(20*time.Second) {
			res.Note("%s: early plugin did not register: %v", tag, err)
			res.Inconcl()
			return
		}
	}
	// a synchronized plugin is activated a moment later, still inside the exclusive section of its
	// registration: a sync block is granted only after that
	rt.A.BlockPluginSync().Unblock()
	for i := 0; i < nlate; i++ {
		r.plugins = append(r.plugins, r.newPlugin(2+i, fmt.Sprintf("%02d", 80-i), 0, true))
	}
	stop := make(chan struct{})
	var wg sync.WaitGroup
	var nreq atomic.Int64
	evs := []api.Event{api.Event_START_CONTAINER, api.Event_POST_START_CONTAINER, api.Event_POST_CREATE_CONTAINER, api.Event_POST_UPDATE_CONTAINER, api.Event_RUN_POD_SANDBOX, api.Event_REMOVE_CONTAINER}
	for w := 0; w < callers; w++ {
		wg.Add(1)
		go func(w int) {
			defer wg.Done()
			for i := 0; ; i++ {
				select {
				case <-stop:
					return
				default:
				}
				id := fmt.Sprintf("%s-u%d-%d", tag, w, i)
				if _, err := c06Issue(rt.A, evs[(w+i)%len(evs)], id); err != nil {
					res.Violate("C06/unexpected-error", fmt.Sprintf("event %s failed: %v", id, err), what)
					return
				}
				nreq.Add(1)
			}
		}(w)
	}
	for _, p := range r.plugins[2:] {
		if err := p.p.Connect(rt.Sock); err != nil || !p.p.WaitSynced(20*time.Second) {
			res.Note("%s: late plugin %s did not register: %v", tag, p.idx, err)
			break
		}
	}
	close(stop)
	wg.Wait()
	r.mu.Lock()
	log := append([]c06Inv(nil), r.log...)
	r.mu.Unlock()
	sort.Slice(log, func(i, j int) bool { return log[i].Tick < log[j].Tick })
	byReq := map[string][]c06Inv{}
	for _, inv := range log {
		byReq[inv.Req] = append(byReq[inv.Req], inv)
	}
	sizes := map[int]bool{}
	for id, invs := range byReq {
		seen := map[int]int{}
		for i, inv := range invs {
			seen[inv.Plugin]++
			if i > 0 && r.plugins[invs[i-1].Plugin].idx > r.plugins[inv.Plugin].idx {
				res.Violate("C06/index-order", fmt.Sprintf("for request %s (no sync block, issued while plugins register) plugin %s was invoked before plugin %s", id, r.plugins[invs[i-1].Plugin].idx, r.plugins[inv.Plugin].idx), what)
			}
		}
		for pos, n := range seen {
			if n > 1 {
				res.Violate("C06/extra-invocation/subscribed", fmt.Sprintf("plugin %s was invoked %d times for request %s", r.plugins[pos].idx, n, id), what)
			}
		}
		if seen[0] != 1 || seen[1] != 1 {
			res.Violate("C06/missed-invocation/subscribed", fmt.Sprintf("plugins 90 and 95 were registered before the traffic, yet request %s invoked them %d and %d times", id, seen[0], seen[1]), what)
		}
		sizes[len(seen)] = true
	}
	res.Count("unblocked_requests", nreq.Load())
	res.Count("distinct_active_plugin_counts_seen_by_unblocked_requests", int64(len(sizes)))
	res.Seen("unblocked-events-during-registrations")
}

// c06Cancelled: a runtime caller gives up on its own request (its context is cancelled, or was cancelled
// before the call) while a healthy plugin is still handling it: nobody is dropped for that, every plugin
// receives the following events exactly once.
func c06Cancelled(dir string, res *ev.Result, tag string) {
	what := map[string]any{"scenario": "caller cancels its context while a healthy plugin handles the request"}
	mkdirAll(dir)
	rt, err := rig.NewRuntime(dir)
	if err != nil {
		res.Note("runtime: %v", err)
		return
	}
	if err := rt.Start(); err != nil {
		res.Note("start: %v", err)
		return
	}
	var mu sync.Mutex
	inv := map[string][]int{}
	var plugins []*rig.Plugin
	defer func() {
		rt.Stop()
		for _, p := range plugins {
			p.StopStub()
		}
	}()
	res.Eval()
	for pos := 0; pos < 3; pos++ {
		h := rig.Handlers{Any: func(_ api.Event, pod *api.PodSandbox, ctr *api.Container) {
			id := pod.GetId()
			if ctr != nil {
				id = ctr.GetId()
			}
			mu.Lock()
			inv[id] = append(inv[id], pos)
			mu.Unlock()
			if strings.Contains(id, "slow") && pos == 1 {
				time.Sleep(120 * time.Millisecond)
			}
		}}
		p := rig.NewPlugin(fmt.Sprintf("c%d", pos), fmt.Sprintf("%02d", 20+10*pos), 0, h)
		plugins = append(plugins, p)
		if err := p.Connect(rt.Sock); err != nil || !p.WaitSynced(20*time.Second) {
			res.Note("%s: plugin %d did not register: %v", tag, pos, err)
			res.Inconcl()
			return
		}
	}
	rt.A.BlockPluginSync().Unblock()
	for round, e := range []api.Event{api.Event_START_CONTAINER, api.Event_CREATE_CONTAINER, api.Event_UPDATE_CONTAINER, api.Event_STOP_POD_SANDBOX} {
		id := fmt.Sprintf("%s-slow%d", tag, round)
		ctx, cancel := context.WithCancel(context.Background())
		if round%2 == 0 {
			time.AfterFunc(25*time.Millisecond, cancel)
		} else {
			cancel() // cancelled before the call
		}
		pod := &api.PodSandbox{Id: id, Name: id}
		ctr := &api.Container{Id: id, PodSandboxId: id, Name: id}
		b := rt.A.BlockPluginSync()
		switch e {
		case api.Event_START_CONTAINER:
			rt.A.StartContainer(ctx, &api.StateChangeEvent{Pod: pod, Container: ctr})
		case api.Event_CREATE_CONTAINER:
			rt.A.CreateContainer(ctx, &api.CreateContainerRequest{Pod: pod, Container: ctr})
		case api.Event_UPDATE_CONTAINER:
			rt.A.UpdateContainer(ctx, &api.UpdateContainerRequest{Pod: pod, Container: ctr, LinuxResources: &api.LinuxResources{}})
		case api.Event_STOP_POD_SANDBOX:
			rt.A.StopPodSandbox(ctx, &api.StateChangeEvent{Pod: pod})
		}
		b.Unblock()
		cancel()
		time.Sleep(150 * time.Millisecond) // whatever is still being handled finishes
		for k := 0; k < 2; k++ {
			fid := fmt.Sprintf("%s-after%d.%d", tag, round, k)
			b := rt.A.BlockPluginSync()
			_, err := c06Issue(rt.A, allEvents[(round*2+k)%len(allEvents)], fid)
			b.Unblock()
			mu.Lock()
			got := fmt.Sprint(inv[fid])
			mu.Unlock()
			if err != nil || got != "[0 1 2]" {
				res.Violate("C06/missed-invocation/after-cancelled-call", fmt.Sprintf("after a caller cancelled its own %s request (all plugins healthy), the next request %s returned %v and invoked plugins %s, want all of [0 1 2] once", e, fid, err, got), what)
				return
			}
		}
	}
	res.Seen("caller-cancels-context")
}

// c06AfterIdle: plugins that registered against a large runtime state (their snapshot is sent in several
// messages) or a small one stay registered while the runtime is idle for longer than the request
// timeout; every event issued afterwards reaches each of them exactly once.
func c06AfterIdle(dir string, res *ev.Result, tag string) {
	const reqTimeout = 1200 * time.Millisecond
	adaptation.SetPluginRequestTimeout(reqTimeout)
	defer adaptation.SetPluginRequestTimeout(60 * time.Second)
	for _, big := range []bool{true, false} {
		what := map[string]any{"scenario": "idle longer than the request timeout after registration", "state_sent_in_several_messages": big, "request_timeout_ms": reqTimeout.Milliseconds()}
		d := fmt.Sprintf("%s/idle-%v", dir, big)
		mkdirAll(d)
		rt, err := rig.NewRuntime(d)
		if err != nil {
			res.Note("runtime: %v", err)
			return
		}
		if big {
			cs := &c09Case{Pods: rep(2, 100), Ctrs: rep(100, 50<<10)}
			rt.SetState(c09State(cs, tag))
		}
		var syncErr atomic.Value
		rt.SyncDone = func(_ []*api.ContainerUpdate, err error) {
			if err != nil {
				syncErr.Store(err)
			}
		}
		if err := rt.Start(); err != nil {
			res.Note("start: %v", err)
			return
		}
		r := &c06Rig{rt: rt}
		for pos, idx := range []string{"10", "20"} {
			r.plugins = append(r.plugins, r.newPlugin(pos, idx, 0, false))
		}
		func() {
			defer func() {
				rt.Stop()
				for _, p := range r.plugins {
					p.p.StopStub()
				}
			}()
			res.Eval()
			for _, p := range r.plugins {
				if err := p.p.Connect(rt.Sock); err != nil || !p.p.WaitSynced(20*time.Second) || syncErr.Load() != nil {
					// on a starved machine the snapshot itself may not get through within the short timeout
					res.Note("%s: registration did not complete under a %v request timeout: %v %v", tag, reqTimeout, err, syncErr.Load())
					res.Inconcl()
					return
				}
			}
			time.Sleep(2*reqTimeout + 200*time.Millisecond)
			for i, e := range allEvents {
				id := fmt.Sprintf("%s-idle%v-%d", tag, big, i)
				b := rt.A.BlockPluginSync()
				_, err := c06Issue(rt.A, e, id)
				b.Unblock()
				if err != nil {
					res.Violate("C06/unexpected-error", fmt.Sprintf("%s after an idle period failed: %v", e, err), what)
				}
				r.mu.Lock()
				n := map[int]int{}
				for _, inv := range r.log {
					if inv.Req == id {
						n[inv.Plugin]++
					}
				}
				r.mu.Unlock()
				for _, p := range r.plugins {
					if n[p.pos] != 1 {
						res.Violate("C06/missed-invocation/after-idle", fmt.Sprintf("plugin %s registered, was healthy and idle for %v (request timeout %v); it then received %s %d times (want 1)", p.idx, 2*reqTimeout, reqTimeout, e, n[p.pos]), what)
						return
					}
				}
			}
			res.Seen(fmt.Sprintf("idle-after-registration|big%v", big))
		}()
	}
}

func subscribedWord(b bool) string {
	if b {
		return "subscribed"
	}
	return "unsubscribed"
}

var seqModel = porcupine.Model{
	Init: func() interface{} { return 0 },
	Step: func(state, input, output interface{}) (bool, interface{}) {
		return output.(int) == state.(int)+1, state.(int) + 1
	},
}

func c06Masks(tier string, g *rand.Rand) []api.EventMask {
	var ms []api.EventMask
	if tier == "thorough" {
		for m := 0; m <= int(api.ValidEvents); m++ {
			ms = append(ms, api.EventMask(m))
		}
		return ms
	}
	ms = append(ms, 0, api.ValidEvents)
	for _, e := range allEvents {
		ms = append(ms, evBit(e), api.ValidEvents&^evBit(e))
	}
	for i := 0; i < 100; i++ {
		ms = append(ms, api.EventMask(1+g.IntN(int(api.ValidEvents))))
	}
	return ms
}

func runC06(c *ev.ChildEnv, res *ev.Result) {
	rig.QuietLogs()
	adaptation.SetPluginRequestTimeout(60 * time.Second)
	adaptation.SetPluginRegistrationTimeout(60 * time.Second)
	hook := func(point string) {
		if strings.HasPrefix(point, "sync.") {
			time.Sleep(200 * time.Microsecond)
		}
	}
	installAdaptationHook(hook)
	c.WAL("unblocked scenario")
	c06Unblocked(c.Dir+"/unblocked", res, fmt.Sprintf("c06u%d", c.Batch), 60, 6)
	c.WAL("cancelled-caller scenario")
	c06Cancelled(c.Dir+"/cancelled", res, fmt.Sprintf("c06x%d", c.Batch))
	c.WAL("idle scenario")
	c06AfterIdle(c.Dir, res, fmt.Sprintf("c06b%d", c.Batch))
	gm := rand.New(rand.NewPCG(uint64(c.Seed), 600)) // same mask list in every child
	masks := c06Masks(c.Tier, gm)
	g := rand.New(rand.NewPCG(uint64(c.Seed), uint64(c.Batch)+601))
	inst := 0
	for lo := 0; lo < len(masks); lo += 8 {
		if (lo/8)%c.Batches != c.Batch {
			continue
		}
		hi := min(lo+8, len(masks))
		R := []int{1, 4, 16}[inst%3]
		tag := fmt.Sprintf("c06b%di%d", c.Batch, inst)
		c.WAL("instance %s masks %v R=%d", tag, masks[lo:hi], R)
		res.Eval()
		dir := fmt.Sprintf("%s/i%d", c.Dir, inst)
		mkdirAll(dir)
		runC06Instance(dir, g, masks[lo:hi], R, tierN(c.Tier, 120, 160), res, tag)
		if inst == 0 {
			res.Sample(map[string]any{"instance": tag, "masks": masks[lo:hi], "callers": R, "requests": tierN(c.Tier, 120, 160)})
		}
		inst++
	}
}

func init() {
	register(&Check{
		ID: "C06", Level: "exploration", MinNontriv: 30,
		Anchors: []string{"pkg/adaptation/adaptation.go", "pkg/adaptation/plugin.go", "pkg/api/event.go", "pkg/api/plugin.go"},
		Rule:    "rig instances of 8 stub plugins each (masks: quick = empty, all, 13 singletons, 13 complements, 100 seeded random; thorough = all 8192), indices drawn from a small pool incl. equal ones, half of the plugins registering while traffic runs; random sequences of the 13 lifecycle calls from 1/4/16 caller goroutines under sync blocks, 2.5% of handlers veto; oracles over the unique-id handler log and the call/return log: exactly-once per subscribed active plugin, none otherwise, index order, one common order, no interleaving, real-time order, porcupine sequencer windows, own-result echo; plus two fixed scenarios per child: 60 plugins registering in descending index order while 6 callers relay events without sync blocks (at-most-once, index order, early plugins exactly once), and registration against a split / small state followed by an idle period of two request timeouts and all thirteen events; callers cancelling their own context during / before a request (nobody is dropped for that); the first request after a plugin left is one of create / update / stop; distinct = masks covered plus distinct serialisation orders observed",
		Assumptions: []string{
			"a plugin counts as active for a request iff the request's sync-block ticket is later than the plugin's Synchronize handler tick (the sync-block protocol makes this decidable)",
			"relative order of plugins with equal indices is unspecified and not asserted",
		},
		Exhaustive: func(tier string) bool { return false },
		Plan: func(tier string) []ev.ChildSpec {
			var s []ev.ChildSpec
			n := tierN(tier, 4, 16)
			for i := 0; i < n; i++ {
				cs := cpuSettings[i%4]
				s = append(s, ev.ChildSpec{GOMAXPROCS: cs.GOMAXPROCS, CPUs: cs.CPUs})
			}
			return s
		},
		Parallel: func(tier string) int { return tierN(tier, 4, 8) },
		Run:      runC06,
	})
}

func mkdirAll(d string) { os.MkdirAll(d, 0o755) }
