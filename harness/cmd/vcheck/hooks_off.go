//go:build !verif

package main

import "nriverif/internal/ev"

// No-op twins: without the verif tag (or without the hook commits) checks run with narrower race windows.

func installMuxHook(res *ev.Result) bool              { return false }
func setMuxHookActive(on bool)                        {}
func muxHookCount() int64                             { return 0 }
func installAdaptationHook(f func(point string)) bool { return false }
func installStubHook(f func(point string)) bool       { return false }
func installRawMuxHook(f func(point string)) bool     { return false }
