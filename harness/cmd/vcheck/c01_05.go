package main

import (
	"time"

	"nriverif/internal/ev"
)

var mergeAnchors = []string{"pkg/adaptation/result.go", "pkg/adaptation/adaptation.go", "pkg/api/helpers.go", "pkg/api/adjustment.go", "pkg/api/update.go", "pkg/api/resources.go"}

func init() {
	mk := func(id, rule string, min int) {
		register(&Check{
			ID: id, Level: "exploration", Rule: rule, Anchors: mergeAnchors, MinNontriv: min,
			Assumptions: []string{
				"the reference ledger/merge model in merge_model.go transcribes the property statements correctly",
				"cases whose expected outcome the statements leave open (same plugin naming one key twice, bare args removal, claims on fields named by a dropped ignore-failure update) are counted as unspecified and not asserted",
				"plugins are real stub-based plugins connected through the real socket, multiplexer and ttRPC; the runtime side is the real Adaptation",
			},
			Plan: func(tier string) []ev.ChildSpec {
				n := len(mergePlanFor(id, tier).sizes)
				return make([]ev.ChildSpec, n)
			},
			Parallel: func(string) int { return 5 },
			Watchdog: func(tier string) time.Duration {
				if tier == "thorough" {
					return 40 * time.Minute
				}
				return 6 * time.Minute
			},
			Run: func(c *ev.ChildEnv, r *ev.Result) { runMergeChild(id, c, r) },
		})
	}
	mk("C01", "systematic list: 29 item kinds x applicable paths (create-adjust, third-party/own update in create/update/stop) x plugin distance x later-plugin pattern (plain, same value, earlier plugin sets the original value, decoy removal --key then set, collision after an ignored drop by a later plugin or later in the same response, reset-then-collide); innocent plugins also add an unrelated item of the same family; the plain list once more with two plugin instances registered under one index and name, plus seeded random colliding responses from 1-5 plugins with 1/4/16 requests in flight; a case is non-trivial when the reference ledger sees a second claimant; distinct = distinct (kind, path, distance, pattern) tuples", 40)
	mk("C02", "every ordered pair of different resource kinds on four paths, different keys given the same value, two plugins removing the same key, bare args removal, systematic remove-then-set / lone-removal-between / remove-many-then-set / decoy-after-removal patterns for the five removable kinds plus seeded random conflict-free responses (disjoint or removal-prefixed writes) over create/update/stop incl. fully pre-populated update requests; non-trivial = the case has a removal, a re-set, updates or a pre-populated request; distinct = distinct (request kind, releases, re-sets, lone removals, targets, prepopulated) tuples or systematic tags", 20)
	mk("C03", "(every rig: one plugin index in 08-09 behind one in 00-07; original env values with = and empty; original mounts in shuffled order and the order of the mounts compared, too; the generator-applied combined adjustment is also compared with the reference model's final container for env/annotations/mounts/devices) the must-succeed create-adjust half of the systematic list (remove-then-set, lone removal in between, for the five removable kinds at every distance) plus seeded random conflict-free creation cases (1-5 plugins, sets / lone removals / remove-then-set over all adjustable families); oracle: generator(S0, combined) == generator(...generator(S0, adj1)..., adjN) on canonicalised specs, plus owner's-value check of reply resources; distinct = distinct (plugins, releases, re-sets, lone removals, families touched) tuples", 20)
	mk("C04", "(update requests carry device cgroup rules in 40% of the cases; every rig: one plugin index in 08-09 behind one in 00-07) the must-succeed create-adjust half of the systematic list plus seeded random conflict-free create and update cases; every plugin's handler arguments are compared with the reference model after the earlier plugins' responses, and a no-op sentinel plugin's view with the generator-applied combined result; non-trivial = a position > 0 with earlier adjustments; distinct = (kind, position, earlier count, removal pattern)", 10)
	mk("C05", "the plain collision list on update paths (a must-fail case that succeeds = two owners), systematic ignored-partial-drop patterns (scalar and map/list fields) and self-repeat cases (outcome open: only one-entry-per-target and no duplicated page size asserted) plus seeded random create/update/stop cases with 0-4 update targets per plugin, repeated and own targets, ignore-failure flags, pre-populated requests; oracle: one entry per target with exactly the owners' fields, own entry last, self-update fails, dropped updates leak nothing; 24 create/update/stop requests through an adaptation with no plugin at all (never any, and after the last one left): an update request still returns exactly the one entry of the container being updated, the others none; distinct = (kind, targets, multi-owner targets, own named/set, ignored drops, prepopulated)", 15)
}
