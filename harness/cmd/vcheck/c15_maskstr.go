package main

// C15, configuration-time subsets written as strings: a plugin's Configure handler usually builds the mask it
// asks for with api.ParseEventMask ("pod", "container", "all", event names, comma lists). The parsed mask is
// compared with a table written down here (not derived from the code under test), and for a handful of
// strings a real stub plugin whose Configure handler returns the parsed mask is connected to a real
// adaptation: the events that reach it must be exactly the named ones.

import (
	"context"
	"fmt"
	"sort"
	"strings"
	"sync"
	"time"

	"nriverif/internal/ev"
	"nriverif/internal/rig"

	"github.com/containerd/nri/pkg/adaptation"
	"github.com/containerd/nri/pkg/api"
)

var c15EventNames = map[string]api.Event{
	"RunPodSandbox": api.Event_RUN_POD_SANDBOX, "UpdatePodSandbox": api.Event_UPDATE_POD_SANDBOX,
	"PostUpdatePodSandbox": api.Event_POST_UPDATE_POD_SANDBOX, "StopPodSandbox": api.Event_STOP_POD_SANDBOX,
	"RemovePodSandbox": api.Event_REMOVE_POD_SANDBOX, "CreateContainer": api.Event_CREATE_CONTAINER,
	"PostCreateContainer": api.Event_POST_CREATE_CONTAINER, "StartContainer": api.Event_START_CONTAINER,
	"PostStartContainer": api.Event_POST_START_CONTAINER, "UpdateContainer": api.Event_UPDATE_CONTAINER,
	"PostUpdateContainer": api.Event_POST_UPDATE_CONTAINER, "StopContainer": api.Event_STOP_CONTAINER,
	"RemoveContainer": api.Event_REMOVE_CONTAINER,
}

// c15RefMask is the documented meaning of one comma list: event names in any case, "all", "pod" /
// "podsandbox" (the five pod events), "container" (the eight container events).
func c15RefMask(list string) (api.EventMask, bool) {
	var m api.EventMask
	for _, n := range strings.Split(list, ",") {
		switch l := strings.ToLower(n); l {
		case "all":
			for _, e := range c15EventNames {
				m |= evBit(e)
			}
		case "pod", "podsandbox":
			for name, e := range c15EventNames {
				if strings.HasSuffix(name, "PodSandbox") {
					m |= evBit(e)
				}
			}
		case "container":
			for name, e := range c15EventNames {
				if strings.HasSuffix(name, "Container") {
					m |= evBit(e)
				}
			}
		default:
			ok := false
			for name, e := range c15EventNames {
				if strings.ToLower(name) == l {
					m |= evBit(e)
					ok = true
				}
			}
			if !ok {
				return 0, false
			}
		}
	}
	return m, true
}

func c15MaskStrings(c *ev.ChildEnv, res *ev.Result) {
	var names []string
	for n := range c15EventNames {
		names = append(names, n)
	}
	sort.Strings(names)
	var lists []string
	for _, n := range names {
		lists = append(lists, n, strings.ToLower(n), strings.ToUpper(n))
	}
	for _, g := range []string{"all", "pod", "podsandbox", "container", "Pod", "CONTAINER", "All"} {
		lists = append(lists, g)
		for i, n := range names {
			if i%3 == 0 {
				lists = append(lists, g+","+n, n+","+g)
			}
		}
	}
	lists = append(lists, "pod,container", "container,pod", "podsandbox,StopContainer,RemoveContainer", "pod,pod", "RunPodSandbox,RunPodSandbox",
		strings.Join(names, ","), "pods", "containers", "RunPod", "Sandbox", "run-pod-sandbox", "unknown", "pod,unknown", "StopContainer,bogus,all")
	for _, l := range lists {
		res.Eval()
		want, valid := c15RefMask(l)
		got, err := api.ParseEventMask(l)
		switch {
		case valid && (err != nil || got != want):
			res.Violate("C15/mask-string", fmt.Sprintf("ParseEventMask(%q) = 0x%x, %v; the list names exactly 0x%x", l, int(got), err, int(want)), map[string]any{"list": l})
		case !valid && err == nil:
			res.Violate("C15/mask-string-accepted", fmt.Sprintf("ParseEventMask(%q) = 0x%x without an error although the list names no known event", l, int(got)), map[string]any{"list": l})
		}
		// the same list given as separate arguments
		if parts := strings.Split(l, ","); valid && len(parts) > 1 {
			if got, err := api.ParseEventMask(parts...); err != nil || got != want {
				res.Violate("C15/mask-string", fmt.Sprintf("ParseEventMask(%q...) = 0x%x, %v; the arguments name exactly 0x%x", parts, int(got), err, int(want)), map[string]any{"list": l})
			}
		}
	}
	res.Count("configuration_mask_strings_checked", int64(len(lists)))
	res.Seen("mask-strings|parsed")

	// end to end: what a plugin asking with such a string is actually sent
	rig.QuietLogs()
	adaptation.SetPluginRequestTimeout(30 * time.Second)
	adaptation.SetPluginRegistrationTimeout(30 * time.Second)
	dir := c.Dir + "/maskstr"
	mkdirAll(dir)
	rt, err := rig.NewRuntime(dir)
	if err != nil || rt.Start() != nil {
		res.Note("mask strings: runtime did not start: %v", err)
		return
	}
	defer rt.Stop()
	asked := []string{"pod", "container", "podsandbox,StopContainer", "all", "RunPodSandbox,container", "UpdateContainer,PostUpdatePodSandbox"}
	var mu sync.Mutex
	got := make([]api.EventMask, len(asked))
	for i, s := range asked {
		h := rig.Handlers{
			Configure: func(string, string, string) (api.EventMask, error) { return api.ParseEventMask(s) },
			Any: func(e api.Event, pod *api.PodSandbox, _ *api.Container) {
				if strings.HasPrefix(pod.GetId(), "maskstr-") {
					mu.Lock()
					got[i] |= evBit(e)
					mu.Unlock()
				}
			},
		}
		p := rig.NewPlugin(fmt.Sprintf("m%d", i), fmt.Sprintf("%02d", 10+i), 0, h)
		if err := p.Connect(rt.Sock); err != nil || !p.WaitSynced(20*time.Second) {
			res.Note("mask strings: plugin asking for %q did not come up: %v", s, err)
			return
		}
		defer p.StopStub()
	}
	for _, n := range names {
		b := rt.A.BlockPluginSync()
		c06Issue(rt.A, c15EventNames[n], "maskstr-"+n)
		b.Unblock()
	}
	_ = context.Background
	for i, s := range asked {
		res.Eval()
		want, _ := c15RefMask(s)
		mu.Lock()
		g := got[i]
		mu.Unlock()
		if g != want {
			res.Violate("C15/mask-string-subscription", fmt.Sprintf("a plugin whose Configure handler asks for %q was sent the events 0x%x; the string names exactly 0x%x", s, int(g), int(want)), map[string]any{"list": s})
		} else {
			res.Seen("mask-strings|subscribed|" + s)
		}
	}
}
