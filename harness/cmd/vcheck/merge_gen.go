package main

// Seeded generator of merge cases (original container / update request + per-plugin scripts).

import (
	"fmt"
	"google.golang.org/protobuf/proto"
	"math/rand/v2"
	"os"
	"strings"

	"github.com/containerd/nri/pkg/api"
	rspec "github.com/opencontainers/runtime-spec/specs-go"
)

type kindDef struct {
	name      string
	res       bool // a resource field, usable in updates
	keyed     bool
	removable bool
	keys      []string
}

var (
	annKeys  = []string{"ak", "ak1", "ak1.x", "ak2", "k", "verif/k4"}
	envKeys  = []string{"E", "E1", "E1_X", "E2", "E3", "PATH"}
	mntKeys  = []string{"/m0", "/m1", "/m1/sub", "/m2", "/m2/", "/m3//x", "/m1/./sub", "/etc/m4", "/m5//d/", "/m5/d/leaf"}
	devKeys  = []string{"/dev/d0", "/dev/d1", "/dev/d1x", "/dev/d2", "/dev/d3"}
	cdiKeys  = []string{"vendor.com/class=dev0", "vendor.com/class=dev1", "vendor.com/class=dev2", "other.org/c=d"}
	rlimKeys = []string{"RLIMIT_NOFILE", "RLIMIT_NPROC", "RLIMIT_CORE", "RLIMIT_AS", "RLIMIT_STACK"}
	hugeKeys = []string{"2MB", "1GB", "64KB", "32MB"}
	unifKeys = []string{"memory.high", "cpu.weight", "io.max", "pids.max"}
)

var kinds = []kindDef{
	{name: "annotation", keyed: true, removable: true, keys: annKeys},
	{name: "env", keyed: true, removable: true, keys: envKeys},
	{name: "mount", keyed: true, removable: true, keys: mntKeys},
	{name: "device", keyed: true, removable: true, keys: devKeys},
	{name: "cdi", keyed: true, keys: cdiKeys},
	{name: "rlimit", keyed: true, keys: rlimKeys},
	{name: "args", removable: true},
	{name: "cgroupspath"},
	{name: "oomscoreadj"},
	{name: "hugepage", res: true, keyed: true, keys: hugeKeys},
	{name: "unified", res: true, keyed: true, keys: unifKeys},
	{name: "mem.limit", res: true}, {name: "mem.reservation", res: true}, {name: "mem.swap", res: true},
	{name: "mem.kernel", res: true}, {name: "mem.kerneltcp", res: true}, {name: "mem.swappiness", res: true},
	{name: "mem.disableoom", res: true}, {name: "mem.usehierarchy", res: true},
	{name: "cpu.shares", res: true}, {name: "cpu.quota", res: true}, {name: "cpu.period", res: true},
	{name: "cpu.rtruntime", res: true}, {name: "cpu.rtperiod", res: true}, {name: "cpu.cpus", res: true},
	{name: "cpu.mems", res: true},
	{name: "pids", res: true}, {name: "blockio", res: true}, {name: "rdt", res: true},
}

func kindByName(n string) kindDef {
	for _, k := range kinds {
		if k.name == n {
			return k
		}
	}
	panic("unknown kind " + n)
}

func resKinds() []kindDef {
	var o []kindDef
	for _, k := range kinds {
		if k.res {
			o = append(o, k)
		}
	}
	return o
}

// itemOf is the ownership item a (kind,key) names.
func itemOf(kind, key string) string {
	k := kindByName(kind)
	if k.keyed {
		return kind + ":" + key
	}
	return kind
}

type mgen struct {
	rng *rand.Rand
	seq int64
}

func newMgen(seed uint64, stream uint64) *mgen {
	return &mgen{rng: rand.New(rand.NewPCG(seed, stream)), seq: 1000}
}

func (g *mgen) next() int64 { g.seq++; return g.seq }
func (g *mgen) pick(s []string) string {
	return s[g.rng.IntN(len(s))]
}
func (g *mgen) chance(p float64) bool { return g.rng.Float64() < p }

// num returns a value for numeric fields: mostly unique, sometimes a boundary.
func (g *mgen) num(allowBoundary bool) int64 {
	if allowBoundary && g.chance(0.08) {
		b := []int64{0, 1, -1, 1<<63 - 1, -1 << 63, 1 << 32}
		return b[g.rng.IntN(len(b))]
	}
	return g.next()
}

func ensureLinuxAdj(a *api.ContainerAdjustment) *api.LinuxContainerAdjustment {
	if a.Linux == nil {
		a.Linux = &api.LinuxContainerAdjustment{}
	}
	return a.Linux
}

func ensureRes(pp **api.LinuxResources) *api.LinuxResources {
	if *pp == nil {
		*pp = &api.LinuxResources{}
	}
	return *pp
}

// setResField sets one resource field on r.
func (g *mgen) setResField(r *api.LinuxResources, kind, key string, boundary bool) {
	mem := func() *api.LinuxMemory {
		if r.Memory == nil {
			r.Memory = &api.LinuxMemory{}
		}
		return r.Memory
	}
	cpu := func() *api.LinuxCPU {
		if r.Cpu == nil {
			r.Cpu = &api.LinuxCPU{}
		}
		return r.Cpu
	}
	n := g.num(boundary)
	un := uint64(g.next())
	if boundary && g.chance(0.08) {
		un = []uint64{0, 1, 1<<64 - 1}[g.rng.IntN(3)]
	}
	switch kind {
	case "mem.limit":
		if n == 0 {
			n = g.next()
		}
		mem().Limit = &api.OptionalInt64{Value: n}
	case "mem.reservation":
		mem().Reservation = &api.OptionalInt64{Value: n}
	case "mem.swap":
		mem().Swap = &api.OptionalInt64{Value: n}
	case "mem.kernel":
		mem().Kernel = &api.OptionalInt64{Value: n}
	case "mem.kerneltcp":
		mem().KernelTcp = &api.OptionalInt64{Value: n}
	case "mem.swappiness":
		mem().Swappiness = &api.OptionalUInt64{Value: un}
	case "mem.disableoom":
		mem().DisableOomKiller = &api.OptionalBool{Value: un%2 == 0}
	case "mem.usehierarchy":
		mem().UseHierarchy = &api.OptionalBool{Value: un%2 == 0}
	case "cpu.shares":
		cpu().Shares = &api.OptionalUInt64{Value: un}
	case "cpu.quota":
		cpu().Quota = &api.OptionalInt64{Value: n}
	case "cpu.period":
		cpu().Period = &api.OptionalUInt64{Value: un}
	case "cpu.rtruntime":
		cpu().RealtimeRuntime = &api.OptionalInt64{Value: n}
	case "cpu.rtperiod":
		cpu().RealtimePeriod = &api.OptionalUInt64{Value: un}
	case "cpu.cpus":
		cpu().Cpus = fmt.Sprintf("0-%d", un)
	case "cpu.mems":
		cpu().Mems = fmt.Sprintf("0,%d", un)
	case "pids":
		r.Pids = &api.LinuxPids{Limit: n}
	case "blockio":
		r.BlockioClass = &api.OptionalString{Value: fmt.Sprintf("bio%d", un)}
		if boundary && g.chance(0.1) {
			r.BlockioClass.Value = "" // set to "no class"
		}
	case "rdt":
		r.RdtClass = &api.OptionalString{Value: fmt.Sprintf("rdt%d", un)}
		if boundary && g.chance(0.1) {
			r.RdtClass.Value = ""
		}
	case "hugepage":
		r.HugepageLimits = append(r.HugepageLimits, &api.HugepageLimit{PageSize: key, Limit: un})
	case "unified":
		if r.Unified == nil {
			r.Unified = map[string]string{}
		}
		r.Unified[key] = fmt.Sprintf("u%d", un)
	default:
		panic("not a resource kind: " + kind)
	}
}

func (g *mgen) mount(dest string) *api.Mount {
	opts := [][]string{{"ro"}, {"rw", "nosuid"}, {"bind", "rprivate"}, nil}
	return &api.Mount{Destination: dest, Type: g.pick([]string{"bind", "tmpfs"}),
		Source: fmt.Sprintf("/src/%d", g.next()), Options: opts[g.rng.IntN(len(opts))]}
}

func (g *mgen) device(path string) *api.LinuxDevice {
	d := &api.LinuxDevice{Path: path, Type: g.pick([]string{"c", "b"}), Major: g.next() % 4096, Minor: g.next() % 256}
	if g.chance(0.5) {
		d.FileMode = &api.OptionalFileMode{Value: uint32(0o600 + g.rng.IntN(0o100))}
	}
	if g.chance(0.3) {
		d.Uid = &api.OptionalUInt32{Value: uint32(g.next())}
		d.Gid = &api.OptionalUInt32{Value: uint32(g.next())}
	}
	return d
}

func (g *mgen) hook() *api.Hook {
	h := &api.Hook{Path: fmt.Sprintf("/hooks/h%d", g.next()), Args: []string{"h", fmt.Sprint(g.next())}}
	if g.chance(0.3) {
		h.Env = []string{fmt.Sprintf("HK=%d", g.next())}
	}
	if g.chance(0.3) {
		h.Timeout = &api.OptionalInt{Value: g.next() % 100}
	}
	return h
}

// adjSet adds "set item" to an adjustment.
func (g *mgen) adjSet(a *api.ContainerAdjustment, kind, key string, boundary bool) {
	switch kind {
	case "annotation":
		if a.Annotations == nil {
			a.Annotations = map[string]string{}
		}
		a.Annotations[key] = fmt.Sprintf("av%d", g.next())
	case "env":
		v := fmt.Sprintf("ev%d", g.next())
		if boundary && g.chance(0.1) {
			v = "" // a variable set to the empty string
		}
		a.Env = append(a.Env, &api.KeyValue{Key: key, Value: v})
	case "mount":
		a.Mounts = append(a.Mounts, g.mount(key))
	case "device":
		l := ensureLinuxAdj(a)
		l.Devices = append(l.Devices, g.device(key))
	case "cdi":
		a.CDIDevices = append(a.CDIDevices, &api.CDIDevice{Name: key})
	case "rlimit":
		s := uint64(g.next())
		a.Rlimits = append(a.Rlimits, &api.POSIXRlimit{Type: key, Hard: uint64(g.next()), Soft: s})
	case "args":
		a.Args = []string{"cmd", fmt.Sprintf("arg%d", g.next())}
	case "cgroupspath":
		ensureLinuxAdj(a).CgroupsPath = fmt.Sprintf("/cg/%d", g.next())
	case "oomscoreadj":
		v := g.next()%2000 - 1000
		if g.chance(0.3) {
			v = []int64{0, -1000, 1000, 1}[g.rng.IntN(4)]
		}
		ensureLinuxAdj(a).OomScoreAdj = &api.OptionalInt{Value: v}
	default:
		l := ensureLinuxAdj(a)
		g.setResField(ensureRes(&l.Resources), kind, key, boundary)
	}
}

// adjRemove adds a removal marker (always placed before any set already present for list families:
// callers add the marker first).
func (g *mgen) adjRemove(a *api.ContainerAdjustment, kind, key string) {
	switch kind {
	case "annotation":
		if a.Annotations == nil {
			a.Annotations = map[string]string{}
		}
		a.Annotations["-"+key] = ""
	case "env":
		a.Env = append(a.Env, &api.KeyValue{Key: "-" + key})
	case "mount":
		a.Mounts = append(a.Mounts, &api.Mount{Destination: "-" + key})
	case "device":
		l := ensureLinuxAdj(a)
		l.Devices = append(l.Devices, &api.LinuxDevice{Path: "-" + key})
	default:
		panic("kind not removable: " + kind)
	}
}

// adjReplaceArgs emits the "remove then set" form for args.
func (g *mgen) adjReplaceArgs(a *api.ContainerAdjustment) {
	a.Args = []string{"", "cmd", fmt.Sprintf("arg%d", g.next())}
}

// ---------------------------------------------------------------------------
// original containers / update requests

func (g *mgen) genSpec() *rspec.Spec {
	s := &rspec.Spec{
		Version:     "1.0.2",
		Process:     &rspec.Process{Args: []string{"orig", "cmd"}, Cwd: "/"},
		Root:        &rspec.Root{Path: "rootfs"},
		Annotations: map[string]string{},
		Linux:       &rspec.Linux{Resources: &rspec.LinuxResources{}},
	}
	for _, k := range annKeys {
		if g.chance(0.35) {
			s.Annotations[k] = fmt.Sprintf("orig-a%d", g.next())
		}
		if g.chance(0.1) {
			// an item of the original whose own name starts with '-': only a "--name" marker removes it
			s.Annotations["-"+k] = fmt.Sprintf("orig-dash-a%d", g.next())
		}
	}
	for _, k := range envKeys {
		if g.chance(0.35) {
			v := fmt.Sprintf("orig-e%d", g.next())
			switch g.rng.IntN(6) {
			case 0:
				v = "-Dopt=" + v + "=x" // values may contain '=' themselves
			case 1:
				v = ""
			}
			s.Process.Env = append(s.Process.Env, k+"="+v)
		}
	}
	for _, k := range mntKeys {
		if g.chance(0.3) {
			s.Mounts = append(s.Mounts, g.mount(k).ToOCI(nil))
		}
	}
	if g.chance(0.5) {
		// a runtime's own mounts need not be in the generator's order
		g.rng.Shuffle(len(s.Mounts), func(i, j int) { s.Mounts[i], s.Mounts[j] = s.Mounts[j], s.Mounts[i] })
	}
	for _, k := range devKeys {
		if g.chance(0.3) {
			d := g.device(k).ToOCI()
			s.Linux.Devices = append(s.Linux.Devices, d)
		}
	}
	for _, k := range rlimKeys {
		if g.chance(0.2) {
			v := uint64(g.next())
			s.Process.Rlimits = append(s.Process.Rlimits, rspec.POSIXRlimit{Type: k, Hard: v + 1, Soft: v})
		}
	}
	if g.chance(0.3) {
		s.Hooks = &rspec.Hooks{Prestart: []rspec.Hook{g.hook().ToOCI()}}
		if g.chance(0.5) {
			s.Hooks.Poststop = []rspec.Hook{g.hook().ToOCI()}
		}
		if g.chance(0.5) {
			s.Hooks.CreateContainer = []rspec.Hook{g.hook().ToOCI()}
		}
		if g.chance(0.4) {
			s.Hooks.StartContainer = []rspec.Hook{g.hook().ToOCI()}
		}
		if g.chance(0.3) {
			s.Hooks.CreateRuntime = []rspec.Hook{g.hook().ToOCI()}
		}
		if g.chance(0.3) {
			s.Hooks.Poststart = []rspec.Hook{g.hook().ToOCI()}
		}
	}
	if g.chance(0.5) {
		s.Linux.CgroupsPath = fmt.Sprintf("/orig/cg%d", g.next())
	}
	if g.chance(0.3) {
		v := int(g.next() % 100)
		s.Process.OOMScoreAdj = &v
	}
	// resources: any subset, through the NRI representation so that the generator's field setter is reused
	nr := &api.LinuxResources{}
	full := g.chance(0.15)
	for _, k := range resKinds() {
		if k.keyed {
			for _, key := range k.keys {
				if full || g.chance(0.2) {
					g.setResField(nr, k.name, key, false)
				}
			}
		} else if k.name != "blockio" && k.name != "rdt" && (full || g.chance(0.2)) {
			g.setResField(nr, k.name, "", false)
		}
	}
	s.Linux.Resources = nr.ToOCI()
	return s
}

// ctrFromSpec derives the NRI container a runtime would submit for spec s.
func ctrFromSpec(id, pod string, s *rspec.Spec) *api.Container {
	c := &api.Container{
		Id: id, PodSandboxId: pod, Name: "ctr-" + id,
		State:       api.ContainerState_CONTAINER_CREATED,
		Labels:      map[string]string{"verif": id},
		Annotations: api.DupStringMap(s.Annotations),
		Args:        api.DupStringSlice(s.Process.Args),
		Env:         api.DupStringSlice(s.Process.Env),
		Mounts:      api.FromOCIMounts(s.Mounts),
		Hooks:       api.FromOCIHooks(s.Hooks),
		Linux: &api.LinuxContainer{
			Devices:     api.FromOCILinuxDevices(s.Linux.Devices),
			Resources:   api.FromOCILinuxResources(s.Linux.Resources, nil),
			CgroupsPath: s.Linux.CgroupsPath,
		},
	}
	if s.Process.OOMScoreAdj != nil {
		c.Linux.OomScoreAdj = &api.OptionalInt{Value: int64(*s.Process.OOMScoreAdj)}
	}
	for _, l := range s.Process.Rlimits {
		c.Rlimits = append(c.Rlimits, &api.POSIXRlimit{Type: l.Type, Hard: l.Hard, Soft: l.Soft})
	}
	return c
}

func (g *mgen) genReqResources() *api.LinuxResources {
	mode := g.rng.IntN(10)
	if mode == 0 {
		return nil
	}
	r := &api.LinuxResources{}
	full := mode <= 3
	for _, k := range resKinds() {
		if k.keyed {
			for _, key := range k.keys {
				if full || g.chance(0.25) {
					g.setResField(r, k.name, key, false)
				}
			}
		} else if full || g.chance(0.3) {
			g.setResField(r, k.name, "", false)
		}
	}
	if g.chance(0.4) {
		// device cgroup rules submitted by the runtime: no plugin changes them, every plugin sees them
		for n := 1 + g.rng.IntN(2); n > 0; n-- {
			r.Devices = append(r.Devices, &api.LinuxDeviceCgroup{Allow: g.chance(0.5), Type: "c", Access: "rwm",
				Major: &api.OptionalInt64{Value: g.next()}, Minor: &api.OptionalInt64{Value: int64(g.rng.IntN(3))}})
		}
	}
	return r
}

// ---------------------------------------------------------------------------
// cases

// MCase is one request with its scripts.
type MCase struct {
	ID     string              `json:"id"`
	Kind   string              `json:"kind"`
	Spec   *rspec.Spec         `json:"spec,omitempty"`
	Pod    *api.PodSandbox     `json:"pod"`
	Ctr    *api.Container      `json:"ctr"`
	Res    *api.LinuxResources `json:"res,omitempty"`
	Resp   []PResp             `json:"resp"`
	Tags   []string            `json:"tags,omitempty"`
	Others []string            `json:"others,omitempty"` // ids of third-party containers
}

// genOpts steers a random case.
type genOpts struct {
	Kind     string  // create|update|stop
	N        int     // number of plugins
	Disjoint bool    // steer towards conflict-free responses
	Boundary bool    // allow boundary integers
	SelfUpd  float64 // probability that a create response updates the container under creation
	Ignore   float64 // probability that an update entry is marked ignore-failure
	OpsMax   int
}

// genCase produces a random case.
func (g *mgen) genCase(id string, o genOpts) *MCase {
	c := &MCase{ID: id, Kind: o.Kind, Pod: &api.PodSandbox{Id: "pod-" + id, Name: "pod-" + id, Namespace: "ns"}}
	c.Others = []string{id + ".o1", id + ".o2", id + ".o3"}
	if o.Kind == "create" {
		c.Spec = g.genSpec()
		c.Ctr = ctrFromSpec(id, c.Pod.Id, c.Spec)
	} else {
		c.Ctr = &api.Container{Id: id, PodSandboxId: c.Pod.Id, Name: "ctr-" + id, State: api.ContainerState_CONTAINER_RUNNING}
		if o.Kind == "update" {
			c.Res = g.genReqResources()
		}
	}
	if o.OpsMax == 0 {
		o.OpsMax = 4
	}
	// generator-side mirror used only to steer (the oracle is Evaluate)
	claimed := map[string]map[string]bool{}
	isClaimed := func(t, item string) bool { return claimed[t][item] }
	setClaim := func(t, item string, v bool) {
		if claimed[t] == nil {
			claimed[t] = map[string]bool{}
		}
		claimed[t][item] = v
	}
	// keys present in the original or added by an earlier plugin, per removable kind
	present := map[string]map[string]bool{}
	for _, k := range []string{"annotation", "env", "mount", "device"} {
		present[k] = map[string]bool{}
	}
	if o.Kind == "create" {
		for k := range c.Ctr.Annotations {
			present["annotation"][k] = true
		}
		for _, e := range c.Ctr.Env {
			k, _ := splitEnv(e)
			present["env"][k] = true
		}
		for _, m := range c.Ctr.Mounts {
			present["mount"][m.Destination] = true
		}
		for _, d := range c.Ctr.Linux.Devices {
			present["device"][d.Path] = true
		}
	}

	for p := 0; p < o.N; p++ {
		var r PResp
		usedHere := map[string]bool{} // items this plugin already named (avoid same-plugin duplicates)
		if o.Kind == "create" {
			nops := g.rng.IntN(o.OpsMax + 1)
			if nops > 0 {
				r.Adjust = &api.ContainerAdjustment{}
			}
			// removals must precede sets in list families: collect then emit
			type op struct {
				kind, key string
				mode      int // 0 set, 1 lone removal, 2 remove+set
			}
			var ops []op
			for j := 0; j < nops; j++ {
				k := kinds[g.rng.IntN(len(kinds))]
				if g.chance(0.5) { // favour the keyed/removable families
					k = kinds[g.rng.IntN(9)]
				}
				key := ""
				if k.keyed {
					key = g.pick(k.keys)
				}
				item := itemOf(k.name, key)
				if usedHere[item] {
					continue
				}
				mode := 0
				if k.removable {
					x := g.rng.Float64()
					if x < 0.15 {
						mode = 1
					} else if x < 0.35 {
						mode = 2
					}
				}
				if k.name == "args" && mode == 1 {
					mode = 2
				}
				if o.Disjoint && mode == 0 && isClaimed(id, item) {
					if k.removable {
						mode = 2
					} else {
						continue
					}
				}
				usedHere[item] = true
				ops = append(ops, op{k.name, key, mode})
			}
			if g.chance(0.25) && r.Adjust != nil {
				if r.Adjust.Hooks == nil {
					r.Adjust.Hooks = &api.Hooks{}
				}
				h := g.hook()
				switch g.rng.IntN(6) {
				case 0:
					r.Adjust.Hooks.Prestart = append(r.Adjust.Hooks.Prestart, h)
				case 1:
					r.Adjust.Hooks.CreateRuntime = append(r.Adjust.Hooks.CreateRuntime, h)
				case 2:
					r.Adjust.Hooks.CreateContainer = append(r.Adjust.Hooks.CreateContainer, h)
				case 3:
					r.Adjust.Hooks.StartContainer = append(r.Adjust.Hooks.StartContainer, h, g.hook())
				case 4:
					r.Adjust.Hooks.Poststart = append(r.Adjust.Hooks.Poststart, h)
				case 5:
					r.Adjust.Hooks.Poststop = append(r.Adjust.Hooks.Poststop, h)
				}
			}
			if r.Adjust != nil && g.chance(0.12) {
				// decoy: the removal of the *different* item whose own name starts with '-' (wire form
				// "--name"); it releases and removes nothing anyone set
				k := kinds[g.rng.IntN(len(kinds))]
				if k.removable && k.keyed {
					g.adjRemove(r.Adjust, k.name, "-"+g.pick(k.keys))
				}
			}
			// remove+set in a list family: now and then the marker comes *after* the set in the plugin's
			// list; the documented order of effects (removals first) does not depend on it
			late := map[int]bool{}
			for oi, x := range ops {
				if x.mode == 2 && (x.kind == "env" || x.kind == "mount" || x.kind == "device") && g.chance(0.3) {
					late[oi] = true
				}
			}
			for oi, x := range ops {
				if x.mode != 0 && x.kind != "args" {
					if !late[oi] {
						g.adjRemove(r.Adjust, x.kind, x.key)
					}
					setClaim(id, itemOf(x.kind, x.key), false)
					delete(present[x.kind], x.key)
				}
			}
			defer0 := func() {
				for oi, x := range ops {
					if late[oi] {
						g.adjRemove(r.Adjust, x.kind, x.key)
					}
				}
			}
			for _, x := range ops {
				switch {
				case x.kind == "args" && x.mode == 2:
					g.adjReplaceArgs(r.Adjust)
					setClaim(id, "args", true)
				case x.mode == 0 || x.mode == 2:
					g.adjSet(r.Adjust, x.kind, x.key, o.Boundary)
					setClaim(id, itemOf(x.kind, x.key), true)
					if present[x.kind] != nil {
						present[x.kind][x.key] = true
					}
				}
			}
			defer0()
		}
		// updates
		nupd := 0
		switch o.Kind {
		case "create":
			if g.chance(0.35) {
				nupd = 1 + g.rng.IntN(2)
			}
		default:
			nupd = g.rng.IntN(4)
		}
		for j := 0; j < nupd; j++ {
			var t string
			switch {
			case o.Kind == "create":
				t = g.pick(c.Others)
				if g.chance(o.SelfUpd) {
					t = id
				}
			default:
				ts := append([]string{id, id}, c.Others...)
				t = g.pick(ts)
			}
			u := &api.ContainerUpdate{ContainerId: t, IgnoreFailure: g.chance(o.Ignore)}
			nf := 1 + g.rng.IntN(4)
			if g.chance(0.05) {
				nf = 0
			}
			rk := resKinds()
			for f := 0; f < nf; f++ {
				k := rk[g.rng.IntN(len(rk))]
				key := ""
				if k.keyed {
					key = g.pick(k.keys)
				}
				item := t + "/" + itemOf(k.name, key)
				if usedHere[item] {
					continue
				}
				if o.Disjoint && isClaimed(t, itemOf(k.name, key)) {
					continue
				}
				usedHere[item] = true
				setClaim(t, itemOf(k.name, key), true)
				if u.Linux == nil {
					u.Linux = &api.LinuxContainerUpdate{}
				}
				g.setResField(ensureRes(&u.Linux.Resources), k.name, key, o.Boundary)
			}
			r.Updates = append(r.Updates, u)
		}
		c.Resp = append(c.Resp, r)
	}
	return c
}

// ---------------------------------------------------------------------------
// systematic collision cases (C01/C02)

type sysSpec struct {
	Kind     string // item kind
	Path     string // create-adjust | create-3p | update-own | update-3p | stop-3p | stop-own
	N        int    // plugins
	A, B     int    // positions of the two claimants
	Pattern  string // plain | remove-then-set | earlier-removes-then-sets | lone-removal-between | decoy-removal-then-set | ...
	OrigHas  bool   // original already holds the collided key
	Innocent bool   // plugins in between do unrelated things
}

// sameValueKinds: keyed kinds for which "two plugins give two DIFFERENT keys the SAME value" is built.
var sameValueKinds = map[string]bool{"unified": true, "annotation": true, "env": true, "hugepage": true}

// origValueKinds: kinds for which "the earlier plugin sets exactly the value the runtime submitted" is
// built by applying that plugin's adjustment to the original spec with the project's generator.
var origValueKinds = map[string]bool{"cgroupspath": true, "oomscoreadj": true, "annotation": true, "env": true, "args": true,
	"mem.limit": true, "mem.swap": true, "cpu.shares": true, "cpu.quota": true, "cpu.cpus": true, "pids": true, "unified": true, "hugepage": true}

// systematicSpecs enumerates kind × path × distance × pattern.
func systematicSpecs() []sysSpec {
	var out []sysSpec
	dist := []struct{ n, a, b int }{{2, 0, 1}, {3, 0, 2}, {4, 0, 3}, {5, 0, 4}, {3, 1, 2}, {5, 1, 3}}
	for _, k := range kinds {
		paths := []string{"create-adjust"}
		if k.res {
			paths = append(paths, "create-3p", "update-own", "update-3p", "stop-3p", "stop-own")
		}
		for _, p := range paths {
			for _, d := range dist {
				pats := []string{"plain"}
				if p == "create-adjust" && k.removable {
					pats = append(pats, "remove-then-set", "earlier-removes-then-sets")
					if d.b-d.a >= 2 && k.name != "args" {
						pats = append(pats, "lone-removal-between")
					}
				}
				if p == "create-adjust" && k.removable && k.keyed {
					pats = append(pats, "decoy-removal-then-set", "decoy-after-removal", "set-then-removed", "remove-and-set-other", "both-remove", "both-remove-and-set")
				}
				if p == "create-adjust" && k.removable && d.b-d.a >= 2 {
					pats = append(pats, "reset-then-collide")
				}
				pats = append(pats, "same-value")
				if sameValueKinds[k.name] {
					pats = append(pats, "different-key-same-value")
				}
				if p != "create-adjust" && d.n == 2 {
					pats = append(pats, "self-repeat")
				}
				if d.n == 2 {
					pats = append(pats, "single")
				}
				if p == "create-adjust" && origValueKinds[k.name] {
					pats = append(pats, "orig-value-then-other")
				}
				if k.name == "args" {
					pats = append(pats, "bare-args-removal")
				}
				if p == "create-adjust" && k.removable && k.keyed && d.n >= 3 {
					pats = append(pats, "remove-many-then-set")
				}
				if p != "create-adjust" && d.n >= 3 && d.b-d.a >= 2 {
					pats = append(pats, "collision-after-ignored-drop", "ignored-partial-drop", "ignored-partial-drop-maps", "collision-after-ignored-drop-same-response")
				}
				for _, pat := range pats {
					for _, oh := range []bool{false, true} {
						if oh && !(p == "create-adjust" || p == "update-own") {
							continue
						}
						if pat == "orig-value-then-other" && !oh {
							continue
						}
						out = append(out, sysSpec{Kind: k.name, Path: p, N: d.n, A: d.a, B: d.b, Pattern: pat, OrigHas: oh, Innocent: true})
					}
				}
			}
		}
	}
	return out
}

// genSystematic builds the case for one systematic spec.
func (g *mgen) genSystematic(id string, s sysSpec) *MCase {
	kd := kindByName(s.Kind)
	key := ""
	if kd.keyed {
		key = g.pick(kd.keys)
	}
	kind := "create"
	switch s.Path {
	case "update-own", "update-3p":
		kind = "update"
	case "stop-3p", "stop-own":
		kind = "stop"
	}
	c := &MCase{ID: id, Kind: kind, Pod: &api.PodSandbox{Id: "pod-" + id, Name: "pod-" + id, Namespace: "ns"}}
	c.Others = []string{id + ".o1", id + ".o2", id + ".o3"}
	c.Tags = []string{fmt.Sprintf("sys|%s|%s|d%d/%d|%s|orig=%v", s.Kind, s.Path, s.B-s.A, s.N, s.Pattern, s.OrigHas)}
	if kind == "create" {
		c.Spec = g.genSpec()
		if s.Path == "create-adjust" {
			forceOrig(g, c.Spec, s.Kind, key, s.OrigHas)
		}
		c.Ctr = ctrFromSpec(id, c.Pod.Id, c.Spec)
	} else {
		c.Ctr = &api.Container{Id: id, PodSandboxId: c.Pod.Id, Name: "ctr-" + id, State: api.ContainerState_CONTAINER_RUNNING}
		if kind == "update" {
			c.Res = g.genReqResources()
			if s.Path == "update-own" {
				if s.OrigHas {
					g.setResField(ensureRes(&c.Res), s.Kind, key, false)
				} else if c.Res != nil {
					clearResField(c.Res, s.Kind, key)
				}
			}
		}
	}
	target := id
	switch s.Path {
	case "create-3p", "update-3p", "stop-3p":
		target = c.Others[0]
	}
	c.Resp = make([]PResp, s.N)
	put := func(p int, removeFirst bool, set bool) {
		r := &c.Resp[p]
		if s.Path == "create-adjust" {
			if r.Adjust == nil {
				r.Adjust = &api.ContainerAdjustment{}
			}
			if s.Kind == "args" {
				if removeFirst {
					g.adjReplaceArgs(r.Adjust)
				} else if set {
					g.adjSet(r.Adjust, s.Kind, key, false)
				}
				return
			}
			if removeFirst {
				g.adjRemove(r.Adjust, s.Kind, key)
			}
			if set {
				g.adjSet(r.Adjust, s.Kind, key, false)
			}
			return
		}
		u := &api.ContainerUpdate{ContainerId: target, Linux: &api.LinuxContainerUpdate{}}
		g.setResField(ensureRes(&u.Linux.Resources), s.Kind, key, false)
		r.Updates = append(r.Updates, u)
	}
	switch s.Pattern {
	case "plain":
		put(s.A, false, true)
		put(s.B, false, true)
	case "remove-then-set":
		put(s.A, false, true)
		put(s.B, true, true)
	case "same-value":
		// B sets the very same value A set: still two plugins setting the same item
		put(s.A, false, true)
		ra := c.Resp[s.A]
		if ra.Adjust != nil {
			c.Resp[s.B].Adjust = proto.Clone(ra.Adjust).(*api.ContainerAdjustment)
		}
		c.Resp[s.B].Updates = cloneUpdates(ra.Updates)
	case "different-key-same-value":
		// two different keys of one family receive the very same value from two plugins: different items, no conflict
		put(s.A, false, true)
		other := kd.keys[0]
		if other == key {
			other = kd.keys[1]
		}
		if s.Path == "create-adjust" {
			b := &api.ContainerAdjustment{}
			a := c.Resp[s.A].Adjust
			switch s.Kind {
			case "annotation":
				b.Annotations = map[string]string{other: a.Annotations[key]}
			case "env":
				b.Env = []*api.KeyValue{{Key: other, Value: a.Env[len(a.Env)-1].Value}}
			case "unified":
				ensureRes(&ensureLinuxAdj(b).Resources).Unified = map[string]string{other: a.GetLinux().GetResources().GetUnified()[key]}
			case "hugepage":
				hp := a.GetLinux().GetResources().GetHugepageLimits()
				ensureRes(&ensureLinuxAdj(b).Resources).HugepageLimits = []*api.HugepageLimit{{PageSize: other, Limit: hp[len(hp)-1].Limit}}
			}
			c.Resp[s.B].Adjust = b
		} else if ups := c.Resp[s.A].Updates; len(ups) > 0 {
			ra := ups[len(ups)-1].GetLinux().GetResources()
			u := &api.ContainerUpdate{ContainerId: ups[len(ups)-1].ContainerId, Linux: &api.LinuxContainerUpdate{Resources: &api.LinuxResources{}}}
			switch s.Kind {
			case "unified":
				u.Linux.Resources.Unified = map[string]string{other: ra.GetUnified()[key]}
			case "hugepage":
				hp := ra.GetHugepageLimits()
				u.Linux.Resources.HugepageLimits = []*api.HugepageLimit{{PageSize: other, Limit: hp[len(hp)-1].Limit}}
			}
			c.Resp[s.B].Updates = append(c.Resp[s.B].Updates, u)
		}
	case "single":
		put(s.A, false, true)
	case "self-repeat":
		// ONE plugin names the item twice, in two updates of the same target, the second flagged
		// ignore-failure and carrying another field too (whether that is refused is left open)
		put(s.A, false, true)
		put(s.A, false, true)
		if ups := c.Resp[s.A].Updates; len(ups) == 2 {
			ups[1].IgnoreFailure = true
			extra := "cpu.shares"
			if s.Kind == extra {
				extra = "mem.limit"
			}
			g.setResField(ensureRes(&ups[1].Linux.Resources), extra, "", false)
		}
	case "orig-value-then-other":
		// A sets exactly the value the runtime submitted (the original is rebuilt from A's adjustment), B another
		put(s.A, false, true)
		put(s.B, false, true)
		if sp, err := applyAdjust(c.Spec, c.Resp[s.A].Adjust); err == nil {
			c.Spec = sp
			c.Ctr = ctrFromSpec(id, c.Pod.Id, c.Spec)
		} else {
			c.Tags[0] += "|orig-not-rebuilt"
		}
	case "bare-args-removal":
		// A sets the command line, B sends only the removal marker: a removal, never a conflict
		put(s.A, false, true)
		c.Resp[s.B].Adjust = &api.ContainerAdjustment{Args: []string{""}}
	case "decoy-removal-then-set":
		// B removes the item named "-key" (wire "--key"), a different item, and sets key: still a conflict
		put(s.A, false, true)
		rb := &c.Resp[s.B]
		rb.Adjust = &api.ContainerAdjustment{}
		g.adjRemove(rb.Adjust, s.Kind, "-"+key)
		g.adjSet(rb.Adjust, s.Kind, key, false)
	case "reset-then-collide":
		// A sets, the next plugin removes and sets again (it is the owner now), B sets plainly: a conflict
		put(s.A, false, true)
		put(s.A+1, true, true)
		put(s.B, false, true)
	case "remove-and-set-other":
		// B's response removes key (which the original may hold) and, after the marker in the same list,
		// sets a different key of the family: both take effect
		put(s.A, false, true)
		put(s.B, true, false)
		other := kd.keys[0]
		if other == key {
			other = kd.keys[1]
		}
		g.adjSet(c.Resp[s.B].Adjust, s.Kind, other, false)
	case "both-remove":
		// two plugins remove the same key (which the original may hold): removals never conflict
		put(s.A, true, false)
		put(s.B, true, false)
	case "both-remove-and-set":
		put(s.A, true, true)
		put(s.B, true, true)
	case "set-then-removed":
		// A sets key (the original may hold it, too), B removes it and nobody sets it again: it is gone
		put(s.A, false, true)
		put(s.B, true, false)
	case "decoy-after-removal":
		// A removes key; B removes the different item "-key": A's removal must survive in the combined result
		put(s.A, true, false)
		rb := &c.Resp[s.B]
		rb.Adjust = &api.ContainerAdjustment{}
		g.adjRemove(rb.Adjust, s.Kind, "-"+key)
	case "earlier-removes-then-sets":
		put(s.A, true, true)
		put(s.B, false, true)
	case "lone-removal-between":
		put(s.A, false, true)
		put(s.A+1, true, false)
		put(s.B, false, true)
	case "remove-many-then-set":
		// A sets three keys of the family; the next plugin removes all three in one response; B sets the
		// second and third again: must succeed
		keys := []string{kd.keys[0], kd.keys[1], kd.keys[2]}
		ra := &c.Resp[s.A]
		ra.Adjust = &api.ContainerAdjustment{}
		for _, k := range keys {
			g.adjSet(ra.Adjust, s.Kind, k, false)
		}
		rm := &c.Resp[s.A+1]
		rm.Adjust = &api.ContainerAdjustment{}
		for _, k := range keys {
			g.adjRemove(rm.Adjust, s.Kind, k)
		}
		rb := &c.Resp[s.B]
		if rb.Adjust == nil {
			rb.Adjust = &api.ContainerAdjustment{}
		}
		if s.B == s.A+1 {
			g.adjSet(rb.Adjust, s.Kind, keys[1], false)
		} else {
			g.adjSet(rb.Adjust, s.Kind, keys[1], false)
			g.adjSet(rb.Adjust, s.Kind, keys[2], false)
		}
	case "collision-after-ignored-drop-same-response":
		// A sets X on the target and Y on a second container. The plugin after it sends, in ONE response,
		// an ignore-failure update setting X (conflicts, dropped) and then a plain update setting Y on the
		// second container: that one conflicts too and must fail the request
		put(s.A, false, true)
		second := c.Others[1]
		if second == target {
			second = c.Others[2]
		}
		yk := "mem.reservation"
		if s.Kind == yk {
			yk = "cpu.quota"
		}
		ua := &api.ContainerUpdate{ContainerId: second, Linux: &api.LinuxContainerUpdate{}}
		g.setResField(ensureRes(&ua.Linux.Resources), yk, "", false)
		c.Resp[s.A].Updates = append(c.Resp[s.A].Updates, ua)
		mid := &c.Resp[s.A+1]
		u1 := &api.ContainerUpdate{ContainerId: target, Linux: &api.LinuxContainerUpdate{}, IgnoreFailure: true}
		g.setResField(ensureRes(&u1.Linux.Resources), s.Kind, key, false)
		u2 := &api.ContainerUpdate{ContainerId: second, Linux: &api.LinuxContainerUpdate{}}
		g.setResField(ensureRes(&u2.Linux.Resources), yk, "", false)
		mid.Updates = append(mid.Updates, u1, u2)
	case "ignored-partial-drop-maps":
		// like ignored-partial-drop, with the map- and list-typed fields: the target already holds a unified
		// key and a hugepage limit from the first (successful) update of the plugin after A; its second,
		// ignore-failure update adds another unified key and another page size before it collides with A's
		// claim on X and is dropped whole: nobody may see any part of it
		put(s.A, false, true)
		mid := &c.Resp[s.A+1]
		pick2 := func(keys []string, not string) (string, string) {
			var o []string
			for _, k := range keys {
				if k != not {
					o = append(o, k)
				}
			}
			return o[0], o[1]
		}
		notU, notH := "", ""
		if s.Kind == "unified" {
			notU = key
		}
		if s.Kind == "hugepage" {
			notH = key
		}
		ua, ub := pick2(kindByName("unified").keys, notU)
		ha, hb := pick2(kindByName("hugepage").keys, notH)
		u1 := &api.ContainerUpdate{ContainerId: target, Linux: &api.LinuxContainerUpdate{}}
		g.setResField(ensureRes(&u1.Linux.Resources), "unified", ua, false)
		g.setResField(ensureRes(&u1.Linux.Resources), "hugepage", ha, false)
		u2 := &api.ContainerUpdate{ContainerId: target, Linux: &api.LinuxContainerUpdate{}, IgnoreFailure: true}
		g.setResField(ensureRes(&u2.Linux.Resources), "unified", ub, false)
		g.setResField(ensureRes(&u2.Linux.Resources), "hugepage", hb, false)
		g.setResField(ensureRes(&u2.Linux.Resources), s.Kind, key, false)
		mid.Updates = append(mid.Updates, u1, u2)
	case "collision-after-ignored-drop", "ignored-partial-drop":
		// A sets X on the target. The plugin after it sends two updates for the target: the first sets Y
		// (succeeds), the second, flagged ignore-failure, sets Z (a field handled before X) and X: it
		// conflicts and is dropped whole. "collision": B then sets Y as well -> must fail.
		// "partial": B sets something unrelated -> must succeed, and nobody may see Z.
		other := func(not ...string) (string, string) {
			for _, cand := range []string{"mem.limit", "mem.reservation", "cpu.shares", "cpu.quota"} {
				ok := cand != s.Kind
				for _, n := range not {
					if n == cand {
						ok = false
					}
				}
				if ok {
					return cand, ""
				}
			}
			return "cpu.period", ""
		}
		yk, ykey := other()
		zk, zkey := other(yk)
		put(s.A, false, true)
		mid := &c.Resp[s.A+1]
		u1 := &api.ContainerUpdate{ContainerId: target, Linux: &api.LinuxContainerUpdate{}}
		g.setResField(ensureRes(&u1.Linux.Resources), yk, ykey, false)
		u2 := &api.ContainerUpdate{ContainerId: target, Linux: &api.LinuxContainerUpdate{}, IgnoreFailure: true}
		g.setResField(ensureRes(&u2.Linux.Resources), zk, zkey, false)
		g.setResField(ensureRes(&u2.Linux.Resources), s.Kind, key, false)
		mid.Updates = append(mid.Updates, u1, u2)
		if s.Pattern == "collision-after-ignored-drop" {
			ub := &api.ContainerUpdate{ContainerId: target, Linux: &api.LinuxContainerUpdate{}}
			g.setResField(ensureRes(&ub.Linux.Resources), yk, ykey, false)
			c.Resp[s.B].Updates = append(c.Resp[s.B].Updates, ub)
		}
	}
	// innocents: unrelated annotation / resource fields from their own partitions
	for p := 0; p < s.N; p++ {
		if p == s.A || p == s.B || ((s.Pattern == "lone-removal-between" || s.Pattern == "remove-many-then-set" || s.Pattern == "reset-then-collide" ||
			s.Pattern == "collision-after-ignored-drop" || s.Pattern == "ignored-partial-drop" || s.Pattern == "ignored-partial-drop-maps" || s.Pattern == "collision-after-ignored-drop-same-response") && p == s.A+1) {
			continue
		}
		r := &c.Resp[p]
		if kind == "create" {
			r.Adjust = &api.ContainerAdjustment{}
			g.adjSet(r.Adjust, "annotation", fmt.Sprintf("innocent-%d", p), false)
			// ... and an unrelated item of the same family (another key), so that the collected list of that
			// family holds entries of several plugins when the pattern's second step arrives
			switch s.Kind {
			case "env":
				g.adjSet(r.Adjust, "env", fmt.Sprintf("INNOCENT_%d", p), false)
			case "mount":
				g.adjSet(r.Adjust, "mount", fmt.Sprintf("/innocent/%d", p), false)
			case "device":
				g.adjSet(r.Adjust, "device", fmt.Sprintf("/dev/innocent%d", p), false)
			}
		} else {
			u := &api.ContainerUpdate{ContainerId: c.Others[2], Linux: &api.LinuxContainerUpdate{}}
			g.setResField(ensureRes(&u.Linux.Resources), "unified", fmt.Sprintf("innocent.%d", p), false)
			r.Updates = append(r.Updates, u)
		}
	}
	return c
}

// forceOrig makes the original spec hold / not hold the key of the given kind.
func forceOrig(g *mgen, s *rspec.Spec, kind, key string, has bool) {
	nr := api.FromOCILinuxResources(s.Linux.Resources, nil)
	if nr == nil {
		nr = &api.LinuxResources{}
	}
	switch kind {
	case "annotation":
		delete(s.Annotations, key)
		if has {
			s.Annotations[key] = fmt.Sprintf("orig-a%d", g.next())
		}
	case "env":
		var env []string
		for _, e := range s.Process.Env {
			if k, _ := splitEnv(e); k != key {
				env = append(env, e)
			}
		}
		if has {
			env = append(env, fmt.Sprintf("%s=orig-e%d", key, g.next()))
		}
		s.Process.Env = env
	case "mount":
		var ms []rspec.Mount
		for _, m := range s.Mounts {
			if m.Destination != key {
				ms = append(ms, m)
			}
		}
		if has {
			ms = append(ms, g.mount(key).ToOCI(nil))
		}
		s.Mounts = ms
	case "device":
		var ds []rspec.LinuxDevice
		for _, d := range s.Linux.Devices {
			if d.Path != key {
				ds = append(ds, d)
			}
		}
		if has {
			ds = append(ds, g.device(key).ToOCI())
		}
		s.Linux.Devices = ds
	case "rlimit":
		var ls []rspec.POSIXRlimit
		for _, l := range s.Process.Rlimits {
			if l.Type != key {
				ls = append(ls, l)
			}
		}
		if has {
			ls = append(ls, rspec.POSIXRlimit{Type: key, Hard: 7, Soft: 5})
		}
		s.Process.Rlimits = ls
	case "cgroupspath":
		s.Linux.CgroupsPath = ""
		if has {
			s.Linux.CgroupsPath = "/orig/cg"
		}
	case "oomscoreadj":
		s.Process.OOMScoreAdj = nil
		if has {
			v := 42
			s.Process.OOMScoreAdj = &v
		}
	case "args", "cdi":
	case "blockio", "rdt":
	default:
		clearResField(nr, kind, key)
		if has {
			g.setResField(nr, kind, key, false)
		}
		s.Linux.Resources = nr.ToOCI()
	}
}

func clearResField(r *api.LinuxResources, kind, key string) {
	if r == nil {
		return
	}
	m, c := r.Memory, r.Cpu
	switch kind {
	case "mem.limit":
		if m != nil {
			m.Limit = nil
		}
	case "mem.reservation":
		if m != nil {
			m.Reservation = nil
		}
	case "mem.swap":
		if m != nil {
			m.Swap = nil
		}
	case "mem.kernel":
		if m != nil {
			m.Kernel = nil
		}
	case "mem.kerneltcp":
		if m != nil {
			m.KernelTcp = nil
		}
	case "mem.swappiness":
		if m != nil {
			m.Swappiness = nil
		}
	case "mem.disableoom":
		if m != nil {
			m.DisableOomKiller = nil
		}
	case "mem.usehierarchy":
		if m != nil {
			m.UseHierarchy = nil
		}
	case "cpu.shares":
		if c != nil {
			c.Shares = nil
		}
	case "cpu.quota":
		if c != nil {
			c.Quota = nil
		}
	case "cpu.period":
		if c != nil {
			c.Period = nil
		}
	case "cpu.rtruntime":
		if c != nil {
			c.RealtimeRuntime = nil
		}
	case "cpu.rtperiod":
		if c != nil {
			c.RealtimePeriod = nil
		}
	case "cpu.cpus":
		if c != nil {
			c.Cpus = ""
		}
	case "cpu.mems":
		if c != nil {
			c.Mems = ""
		}
	case "pids":
		r.Pids = nil
	case "blockio":
		r.BlockioClass = nil
	case "rdt":
		r.RdtClass = nil
	case "hugepage":
		var hs []*api.HugepageLimit
		for _, h := range r.HugepageLimits {
			if h.PageSize != key {
				hs = append(hs, h)
			}
		}
		r.HugepageLimits = hs
	case "unified":
		delete(r.Unified, key)
	}
}

var _ = os.Getpid

// genPair: plugin 0 sets item kind k1 and plugin 1 sets the different kind k2 for the same container,
// on the given path: different items never conflict, whichever two they are.
func (g *mgen) genPair(id, k1, k2, path string) *MCase {
	kind := "create"
	switch path {
	case "update-own", "update-3p":
		kind = "update"
	case "stop-3p", "stop-own":
		kind = "stop"
	}
	c := &MCase{ID: id, Kind: kind, Pod: &api.PodSandbox{Id: "pod-" + id, Name: "pod-" + id, Namespace: "ns"}}
	c.Others = []string{id + ".o1", id + ".o2", id + ".o3"}
	c.Tags = []string{fmt.Sprintf("pair|%s|%s|%s", k1, k2, path)}
	if kind == "create" {
		c.Spec = g.genSpec()
		c.Ctr = ctrFromSpec(id, c.Pod.Id, c.Spec)
	} else {
		c.Ctr = &api.Container{Id: id, PodSandboxId: c.Pod.Id, Name: "ctr-" + id, State: api.ContainerState_CONTAINER_RUNNING}
		if kind == "update" {
			c.Res = g.genReqResources()
		}
	}
	target := id
	if strings.HasSuffix(path, "-3p") {
		target = c.Others[0]
	}
	c.Resp = make([]PResp, 2)
	for p, kn := range []string{k1, k2} {
		kd := kindByName(kn)
		key := ""
		if kd.keyed {
			key = kd.keys[p%len(kd.keys)]
		}
		if path == "create-adjust" {
			c.Resp[p].Adjust = &api.ContainerAdjustment{}
			g.adjSet(c.Resp[p].Adjust, kn, key, false)
			continue
		}
		u := &api.ContainerUpdate{ContainerId: target, Linux: &api.LinuxContainerUpdate{}}
		g.setResField(ensureRes(&u.Linux.Resources), kn, key, false)
		c.Resp[p].Updates = append(c.Resp[p].Updates, u)
	}
	return c
}
