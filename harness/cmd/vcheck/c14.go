package main

// C14 — NRI/OCI conversions are lossless and copies share no state.

import (
	"encoding/json"
	"fmt"
	"math"
	"os"
	"reflect"
	"strings"
	"sync"
	"sync/atomic"

	"nriverif/internal/ev"

	"github.com/containerd/nri/pkg/api"
	rspec "github.com/opencontainers/runtime-spec/specs-go"
	"google.golang.org/protobuf/proto"
)

func ptr[T any](v T) *T { return &v }

var (
	bI64 = []int64{0, 1, -1, math.MaxInt64, math.MinInt64, 4096}
	bU64 = []uint64{0, 1, math.MaxUint64, 1 << 63, 1024}
	bU32 = []uint32{0, 1, math.MaxUint32, 1000}
)

func (g *mgen) optI64() *int64 {
	switch g.rng.IntN(3) {
	case 0:
		return nil
	case 1:
		return ptr(bI64[g.rng.IntN(len(bI64))])
	}
	return ptr(int64(g.rng.Uint64()))
}
func (g *mgen) optU64() *uint64 {
	switch g.rng.IntN(3) {
	case 0:
		return nil
	case 1:
		return ptr(bU64[g.rng.IntN(len(bU64))])
	}
	return ptr(g.rng.Uint64())
}
func (g *mgen) optU32() *uint32 {
	switch g.rng.IntN(3) {
	case 0:
		return nil
	case 1:
		return ptr(bU32[g.rng.IntN(len(bU32))])
	}
	return ptr(g.rng.Uint32())
}
func (g *mgen) optBool() *bool {
	switch g.rng.IntN(3) {
	case 0:
		return nil
	case 1:
		return ptr(false)
	}
	return ptr(true)
}

func (g *mgen) ociResources() *rspec.LinuxResources {
	r := &rspec.LinuxResources{}
	if g.chance(0.8) {
		r.Memory = &rspec.LinuxMemory{Limit: g.optI64(), Reservation: g.optI64(), Swap: g.optI64(), Kernel: g.optI64(),
			KernelTCP: g.optI64(), Swappiness: g.optU64(), DisableOOMKiller: g.optBool(), UseHierarchy: g.optBool()}
	}
	if g.chance(0.8) {
		r.CPU = &rspec.LinuxCPU{Shares: g.optU64(), Quota: g.optI64(), Period: g.optU64(), RealtimeRuntime: g.optI64(),
			RealtimePeriod: g.optU64()}
		if g.chance(0.5) {
			r.CPU.Cpus = fmt.Sprintf("0-%d", g.rng.IntN(64))
		}
		if g.chance(0.5) {
			r.CPU.Mems = fmt.Sprintf("%d", g.rng.IntN(4))
		}
	}
	for i, n := 0, g.rng.IntN(4); i < n; i++ {
		r.HugepageLimits = append(r.HugepageLimits, rspec.LinuxHugepageLimit{Pagesize: hugeKeys[i], Limit: bU64[g.rng.IntN(len(bU64))]})
	}
	for i, n := 0, g.rng.IntN(3); i < n; i++ {
		r.Devices = append(r.Devices, rspec.LinuxDeviceCgroup{Allow: g.chance(0.5), Type: g.pick([]string{"c", "b", "a", ""}),
			Major: g.optI64(), Minor: g.optI64(), Access: g.pick([]string{"rwm", "r", ""})})
	}
	if g.chance(0.5) {
		r.Pids = &rspec.LinuxPids{Limit: bI64[g.rng.IntN(len(bI64))]}
	}
	if g.chance(0.5) {
		r.Unified = map[string]string{}
		for i, n := 0, g.rng.IntN(4); i < n; i++ {
			r.Unified[unifKeys[i]] = fmt.Sprintf("u%d", g.next())
		}
	}
	return r
}

// canon renders a value as JSON with nil/empty collections and nil/empty structs normalised.
func canonJSON(v any) string {
	b, _ := json.Marshal(v)
	var x any
	json.Unmarshal(b, &x)
	x = pruneEmpty(x)
	o, _ := json.Marshal(x)
	return string(o)
}

func pruneEmpty(x any) any {
	switch t := x.(type) {
	case map[string]any:
		for k, v := range t {
			pv := pruneEmpty(v)
			if pv == nil {
				delete(t, k)
			} else {
				t[k] = pv
			}
		}
		if len(t) == 0 {
			return nil
		}
		return t
	case []any:
		if len(t) == 0 {
			return nil
		}
		for i := range t {
			t[i] = pruneEmpty(t[i])
		}
		return t
	}
	return x
}

// ociResView keeps exactly the fields both representations carry, with pointer presence.
func ociResView(r *rspec.LinuxResources) string {
	if r == nil {
		return "null"
	}
	type view struct {
		Mem   *rspec.LinuxMemory
		CPU   map[string]any
		Huge  []rspec.LinuxHugepageLimit
		Dev   []rspec.LinuxDeviceCgroup
		Pids  *rspec.LinuxPids
		Unif  map[string]string
		PidsZ bool
	}
	v := view{Huge: r.HugepageLimits, Dev: r.Devices, Pids: r.Pids, Unif: r.Unified}
	if m := r.Memory; m != nil {
		v.Mem = &rspec.LinuxMemory{Limit: m.Limit, Reservation: m.Reservation, Swap: m.Swap, Kernel: m.Kernel, KernelTCP: m.KernelTCP,
			Swappiness: m.Swappiness, DisableOOMKiller: m.DisableOOMKiller, UseHierarchy: m.UseHierarchy}
	}
	if c := r.CPU; c != nil {
		v.CPU = map[string]any{"shares": c.Shares, "quota": c.Quota, "period": c.Period, "rtr": c.RealtimeRuntime, "rtp": c.RealtimePeriod, "cpus": c.Cpus, "mems": c.Mems}
		for k, x := range v.CPU {
			rv := reflect.ValueOf(x)
			if rv.Kind() == reflect.Ptr && rv.IsNil() || rv.Kind() == reflect.String && rv.Len() == 0 {
				delete(v.CPU, k)
			}
		}
	}
	// a pids limit of 0 is "set to zero" — keep it visible (json omitempty would drop limit 0)
	if r.Pids != nil {
		v.PidsZ = true
	}
	// pointer fields of LinuxMemory marshal with omitempty only when nil, so presence is kept
	return canonJSON(v)
}

// presence-aware rendering of an NRI message: protojson-ish via encoding/json keeps {"value":0} objects.
func nriView(m any) string { return canonJSONKeepZeroObjects(m) }

func canonJSONKeepZeroObjects(v any) string {
	b, _ := json.Marshal(v)
	var x any
	json.Unmarshal(b, &x)
	o, _ := json.Marshal(pruneEmptyKeepObjects(x))
	return string(o)
}

// pruneEmptyKeepObjects removes empty lists/maps of collections but keeps empty objects that stand for
// "optional set to zero" ({} for an Optional* wrapper whose value is zero).
func pruneEmptyKeepObjects(x any) any {
	switch t := x.(type) {
	case map[string]any:
		for k, v := range t {
			if l, ok := v.([]any); ok && len(l) == 0 {
				delete(t, k)
				continue
			}
			t[k] = pruneEmptyKeepObjects(v)
		}
		return t
	case []any:
		for i := range t {
			t[i] = pruneEmptyKeepObjects(t[i])
		}
	}
	return x
}

// addresses collects every pointer / map / slice-backing address reachable through exported fields.
func addresses(v reflect.Value, out map[uintptr]string, path string) {
	switch v.Kind() {
	case reflect.Ptr:
		if v.IsNil() {
			return
		}
		if v.Elem().Type().Size() > 0 {
			out[v.Pointer()] = path
		}
		addresses(v.Elem(), out, path)
	case reflect.Map:
		if v.IsNil() {
			return
		}
		out[v.Pointer()] = path
		for _, k := range v.MapKeys() {
			addresses(v.MapIndex(k), out, path+"["+fmt.Sprint(k)+"]")
		}
	case reflect.Slice:
		if v.IsNil() || v.Cap() == 0 {
			return
		}
		out[v.Pointer()] = path
		for i := 0; i < v.Len(); i++ {
			addresses(v.Index(i), out, fmt.Sprintf("%s[%d]", path, i))
		}
	case reflect.Struct:
		for i := 0; i < v.NumField(); i++ {
			if v.Type().Field(i).IsExported() {
				addresses(v.Field(i), out, path+"."+v.Type().Field(i).Name)
			}
		}
	case reflect.Interface:
		if !v.IsNil() {
			addresses(v.Elem(), out, path)
		}
	}
}

// scramble overwrites every reachable scalar / map entry / slice element of v.
func scramble(v reflect.Value) {
	switch v.Kind() {
	case reflect.Ptr:
		if !v.IsNil() {
			scramble(v.Elem())
		}
	case reflect.Map:
		for _, k := range v.MapKeys() {
			if v.Type().Elem().Kind() == reflect.String {
				v.SetMapIndex(k, reflect.ValueOf("scrambled"))
			}
		}
		if !v.IsNil() && v.Type().Key().Kind() == reflect.String && v.Type().Elem().Kind() == reflect.String {
			v.SetMapIndex(reflect.ValueOf("scrambled-new"), reflect.ValueOf("x"))
		}
	case reflect.Slice:
		for i := 0; i < v.Len(); i++ {
			scramble(v.Index(i))
		}
	case reflect.Struct:
		for i := 0; i < v.NumField(); i++ {
			if v.Type().Field(i).IsExported() && v.Field(i).CanSet() {
				scramble(v.Field(i))
			}
		}
	case reflect.String:
		if v.CanSet() {
			v.SetString(v.String() + "!scr")
		}
	case reflect.Int64, reflect.Int32, reflect.Int:
		if v.CanSet() {
			v.SetInt(v.Int() ^ 0x5a5a)
		}
	case reflect.Uint64, reflect.Uint32:
		if v.CanSet() {
			v.SetUint(v.Uint() ^ 0x5a5a)
		}
	case reflect.Bool:
		if v.CanSet() {
			v.SetBool(!v.Bool())
		}
	}
}

func copyView(r *api.LinuxResources) string {
	if r == nil {
		return "null"
	}
	// the fields the statement lists: memory, CPU, hugepage, unified, pids, classes
	return nriView(map[string]any{"mem": r.Memory, "cpu": r.Cpu, "huge": r.HugepageLimits, "unified": r.Unified, "pids": r.Pids,
		"pidsset": r.Pids != nil, "blockio": r.BlockioClass, "rdt": r.RdtClass})
}

func runC14(c *ev.ChildEnv, res *ev.Result) {
	// the very first use of the mask parser in this process, from many goroutines at once (a table built
	// lazily on first use must be built safely); the race detector watches
	{
		var wg sync.WaitGroup
		start := make(chan struct{})
		var bad atomic.Int32
		for w := 0; w < 16; w++ {
			wg.Add(1)
			go func(w int) {
				defer wg.Done()
				<-start
				for m := 1 + w; m <= int(api.ValidEvents); m += 257 {
					mask := api.EventMask(m)
					if back, err := api.ParseEventMask(mask.PrettyString()); err != nil || back != mask {
						bad.Add(1)
					}
				}
			}(w)
		}
		close(start)
		wg.Wait()
		res.Eval()
		if bad.Load() > 0 {
			res.Violate("C14/mask-roundtrip", fmt.Sprintf("%d masks did not survive print + parse when the parser's first uses in the process ran concurrently", bad.Load()), nil)
		}
		res.Seen("masks|concurrent-first-use")
	}
	g := newMgen(uint64(c.Seed), uint64(c.Batch)+1400)
	n := tierN(c.Tier, 4000, 600000) / c.Batches

	// --- event masks: all 8191, exhaustively (batch 0 only)
	if c.Batch == 0 {
		for m := 1; m <= int(api.ValidEvents); m++ {
			mask := api.EventMask(m)
			s := mask.PrettyString()
			back, err := api.ParseEventMask(s)
			res.Eval()
			if err != nil || back != mask {
				res.Violate("C14/mask-roundtrip", fmt.Sprintf("mask 0x%x prints as %q which parses to 0x%x (err=%v)", m, s, int(back), err), map[string]any{"mask": m})
			}
		}
		res.Seen("masks|all-8191")
		res.Count("event_masks_checked", int64(api.ValidEvents))
		c14Constructors(res)
	}

	for i := 0; i < n; i++ {
		// resources OCI -> NRI -> OCI
		o := g.ociResources()
		back := api.FromOCILinuxResources(o, nil).ToOCI()
		res.Eval()
		if a, b := ociResView(o), ociResView(back); a != b {
			res.Violate("C14/resources-oci-nri-oci", fmt.Sprintf("OCI resources changed by a round trip through NRI: before %s after %s", a, b), o)
		} else {
			res.Seen(fmt.Sprintf("res-oci|mem%v|cpu%v|huge%d|dev%d|pids%v|unified%d", o.Memory != nil, o.CPU != nil, len(o.HugepageLimits), len(o.Devices), o.Pids != nil, len(o.Unified)))
			if i < 2 {
				res.Sample(map[string]any{"kind": "resources OCI->NRI->OCI", "value": json.RawMessage(ociResView(o))})
			}
		}
		// resources NRI -> OCI -> NRI
		nr := api.FromOCILinuxResources(g.ociResources(), nil)
		if g.chance(0.5) {
			nr.BlockioClass = &api.OptionalString{Value: "x"}
		}
		nb := api.FromOCILinuxResources(nr.ToOCI(), nil)
		res.Eval()
		// what a conversion returns shares no state with what it was given: the consumer scribbles over every
		// number of the OCI value, the NRI original and a second conversion of it are unaffected
		{
			before := proto.Clone(nr).(*api.LinuxResources)
			oc := nr.ToOCI()
			if oc != nil {
				if m := oc.Memory; m != nil {
					for _, p := range []*int64{m.Limit, m.Reservation, m.Swap, m.Kernel, m.KernelTCP} {
						if p != nil {
							*p = -4242
						}
					}
					if m.Swappiness != nil {
						*m.Swappiness = 4242
					}
				}
				if cp := oc.CPU; cp != nil {
					if cp.Quota != nil {
						*cp.Quota = -4242
					}
					if cp.RealtimeRuntime != nil {
						*cp.RealtimeRuntime = -4242
					}
					for _, p := range []*uint64{cp.Shares, cp.Period, cp.RealtimePeriod} {
						if p != nil {
							*p = 4242
						}
					}
				}
				for k := range oc.Unified {
					oc.Unified[k] = "scribbled"
				}
				for i := range oc.Devices {
					if oc.Devices[i].Major != nil {
						*oc.Devices[i].Major = -4242
					}
					if oc.Devices[i].Minor != nil {
						*oc.Devices[i].Minor = -4242
					}
				}
			}
			if !proto.Equal(before, nr) {
				res.Violate("C14/conversion-aliases/resources", "writing through the pointers of the OCI value returned by ToOCI() changed the NRI resources it was converted from", map[string]any{"before": before, "after": nr})
			}
		}
		strip := func(r *api.LinuxResources) string {
			x := proto.Clone(r).(*api.LinuxResources)
			x.BlockioClass, x.RdtClass = nil, nil // not carried by the OCI representation
			if x.Memory != nil && proto.Equal(x.Memory, &api.LinuxMemory{}) {
				x.Memory = nil
			}
			if x.Cpu != nil && proto.Equal(x.Cpu, &api.LinuxCPU{}) {
				x.Cpu = nil
			}
			return nriView(map[string]any{"r": x, "pidsset": x.Pids != nil})
		}
		if a, b := strip(nr), strip(nb); a != b {
			res.Violate("C14/resources-nri-oci-nri", fmt.Sprintf("NRI resources changed by a round trip through OCI: before %s after %s", a, b), nr)
		}

		// Copy()
		src := api.FromOCILinuxResources(g.ociResources(), nil)
		if g.chance(0.6) {
			src.BlockioClass = &api.OptionalString{Value: g.pick([]string{"", "bio"})}
		}
		if g.chance(0.6) {
			src.RdtClass = &api.OptionalString{Value: g.pick([]string{"", "rdt"})}
		}
		before := copyView(src)
		cp := src.Copy()
		res.Eval()
		if a := copyView(cp); a != before {
			res.Violate("C14/copy-differs", fmt.Sprintf("Copy() differs from the original: original %s copy %s", before, a), src)
		}
		oa, ca := map[uintptr]string{}, map[uintptr]string{}
		addresses(reflect.ValueOf(src), oa, "orig")
		addresses(reflect.ValueOf(cp), ca, "copy")
		for addr, p := range ca {
			if q, ok := oa[addr]; ok {
				res.Violate("C14/copy-aliases/"+fieldOf(p), fmt.Sprintf("Copy() shares memory with the original: %s is the same object as %s", p, q), src)
			}
		}
		scramble(reflect.ValueOf(cp))
		if a := copyView(src); a != before {
			res.Violate("C14/copy-mutation-leaks", fmt.Sprintf("mutating the copy changed the original: before %s after %s", before, a), nil)
		}
		res.Seen(fmt.Sprintf("copy|huge%d|unified%d|pids%v|bio%v|rdt%v", len(src.HugepageLimits), len(src.Unified), src.Pids != nil, src.BlockioClass != nil, src.RdtClass != nil))

		// mounts
		var ms []rspec.Mount
		for j, k := 0, g.rng.IntN(4); j < k; j++ {
			m := g.mount(g.pick(mntKeys)).ToOCI(nil)
			if g.chance(0.2) {
				m.Options = []string{}
			}
			ms = append(ms, m)
		}
		nm := api.FromOCIMounts(ms)
		res.Eval()
		if len(nm) != len(ms) {
			res.Violate("C14/mounts-count", fmt.Sprintf("%d OCI mounts became %d NRI mounts", len(ms), len(nm)), ms)
		} else {
			for j := range ms {
				if a, b := canonJSON(ms[j]), canonJSON(nm[j].ToOCI(nil)); a != b {
					res.Violate("C14/mount-roundtrip", fmt.Sprintf("mount changed by a round trip: before %s after %s", a, b), ms[j])
				}
			}
			if len(ms) > 0 {
				res.Seen(fmt.Sprintf("mounts|%d", len(ms)))
			}
		}
		// mounts converted the way the spec generator does it: with a propagation query
		{
			props := []string{"rprivate", "rshared", "rslave"}
			var opts []string
			wantProp := ""
			for j, k := 0, g.rng.IntN(6); j < k; j++ {
				if g.chance(0.4) {
					pr := props[g.rng.IntN(3)]
					opts = append(opts, pr)
					wantProp = pr
				} else {
					opts = append(opts, g.pick([]string{"ro", "rw", "rbind", "nosuid", "noexec", "nodev"}))
				}
			}
			m := &api.Mount{Destination: "/d", Source: "/s", Type: "bind", Options: opts}
			q := ""
			o := m.ToOCI(&q)
			res.Eval()
			if strings.Join(o.Options, ",") != strings.Join(opts, ",") || o.Destination != "/d" || o.Source != "/s" || o.Type != "bind" {
				res.Violate("C14/mount-to-oci-with-query", fmt.Sprintf("Mount.ToOCI with a propagation query changed the mount: options %v became %v", opts, o.Options), m)
			} else if q != wantProp {
				res.Violate("C14/mount-propagation-query", fmt.Sprintf("options %v: propagation reported as %q, the last propagation option is %q", opts, q, wantProp), m)
			} else if wantProp != "" {
				res.Seen(fmt.Sprintf("mount-query|%s|opts%d", wantProp, len(opts)))
			}
		}
		// devices
		var ds []rspec.LinuxDevice
		for j, k := 0, g.rng.IntN(4); j < k; j++ {
			d := rspec.LinuxDevice{Path: g.pick(devKeys), Type: g.pick([]string{"c", "b", "p"}), Major: bI64[g.rng.IntN(len(bI64))], Minor: int64(g.rng.IntN(256))}
			if u := g.optU32(); u != nil {
				fm := os.FileMode(*u)
				d.FileMode = &fm
			}
			d.UID, d.GID = g.optU32(), g.optU32()
			ds = append(ds, d)
		}
		nd := api.FromOCILinuxDevices(ds)
		res.Eval()
		for j := range ds {
			if j >= len(nd) {
				res.Violate("C14/devices-count", "device lost in conversion", ds)
				break
			}
			back := nd[j].ToOCI()
			pres := func(d rspec.LinuxDevice) string {
				return fmt.Sprintf("%s mode=%v uid=%v gid=%v", canonJSON(d), d.FileMode != nil, d.UID != nil, d.GID != nil)
			}
			if a, b := pres(ds[j]), pres(back); a != b {
				res.Violate("C14/device-roundtrip", fmt.Sprintf("device changed by a round trip: before %s after %s", a, b), ds[j])
			} else {
				res.Seen(fmt.Sprintf("device|mode%v|uid%v|gid%v", ds[j].FileMode != nil, ds[j].UID != nil, ds[j].GID != nil))
			}
		}
		// hooks
		mkHook := func() rspec.Hook {
			h := rspec.Hook{Path: fmt.Sprintf("/h%d", g.next())}
			if g.chance(0.6) {
				h.Args = []string{"a", fmt.Sprint(g.next())}
			}
			if g.chance(0.4) {
				h.Env = []string{"K=V", "X="}
			}
			switch g.rng.IntN(3) {
			case 1:
				h.Timeout = ptr(0)
			case 2:
				h.Timeout = ptr(g.rng.IntN(1000) - 10)
			}
			return h
		}
		oh := &rspec.Hooks{}
		for _, l := range []*[]rspec.Hook{&oh.Prestart, &oh.CreateRuntime, &oh.CreateContainer, &oh.StartContainer, &oh.Poststart, &oh.Poststop} {
			for j, k := 0, g.rng.IntN(3); j < k; j++ {
				*l = append(*l, mkHook())
			}
		}
		nh := api.FromOCIHooks(oh)
		res.Eval()
		lists := hookLists(nh)
		olists := [6][]rspec.Hook{oh.Prestart, oh.CreateRuntime, oh.CreateContainer, oh.StartContainer, oh.Poststart, oh.Poststop}
		for li := range olists {
			if len(lists[li]) != len(olists[li]) {
				res.Violate("C14/hooks-count", fmt.Sprintf("hook list %d: %d OCI hooks became %d", li, len(olists[li]), len(lists[li])), oh)
				continue
			}
			for j := range olists[li] {
				back := lists[li][j].ToOCI()
				pres := func(h rspec.Hook) string { return fmt.Sprintf("%s timeout=%v", canonJSON(h), h.Timeout != nil) }
				if a, b := pres(olists[li][j]), pres(back); a != b {
					res.Violate("C14/hook-roundtrip", fmt.Sprintf("hook changed by a round trip: before %s after %s", a, b), olists[li][j])
				} else {
					res.Seen(fmt.Sprintf("hook|list%d|timeout%v|args%v|env%v", li, back.Timeout != nil, len(back.Args) > 0, len(back.Env) > 0))
				}
			}
		}
		// env
		var env []string
		for j, k := 0, g.rng.IntN(5); j < k; j++ {
			env = append(env, g.pick(envKeys)+"="+g.pick([]string{"", "v", "a=b", "x y", "=lead"}))
		}
		kvs := api.FromOCIEnv(env)
		res.Eval()
		if len(kvs) != len(env) {
			res.Violate("C14/env-count", fmt.Sprintf("%d env entries became %d", len(env), len(kvs)), env)
		} else {
			for j := range env {
				if kvs[j].ToOCI() != env[j] {
					res.Violate("C14/env-roundtrip", fmt.Sprintf("env entry %q became %q", env[j], kvs[j].ToOCI()), env)
				}
			}
			if len(env) > 0 {
				res.Seen(fmt.Sprintf("env|%d", len(env)))
			}
		}
	}
}

func fieldOf(path string) string {
	p := strings.TrimPrefix(path, "copy.")
	if i := strings.IndexAny(p, ".["); i > 0 {
		p = p[:i]
	}
	return p
}

// c14Constructors checks every optional-value constructor for every accepted argument type.
func c14Constructors(res *ev.Result) {
	bad := func(name, what string) {
		res.Violate("C14/constructor/"+name, what, nil)
	}
	ok := func(name string) { res.Eval(); res.Seen("constructor|" + name) }
	// String
	for _, v := range []string{"", "x", "a b"} {
		if o := api.String(v); o == nil || o.Value != v {
			bad("String", fmt.Sprintf("String(%q) = %v", v, o))
		}
		vv := v
		if o := api.String(&vv); o == nil || o.Value != v {
			bad("String", fmt.Sprintf("String(&%q) = %v", v, o))
		}
		if o := api.String(&api.OptionalString{Value: v}); o == nil || o.Value != v {
			bad("String", "String(*OptionalString) lost the value")
		}
		if g := (&api.OptionalString{Value: v}).Get(); g == nil || *g != v {
			bad("String", "OptionalString.Get lost the value")
		}
	}
	if api.String((*string)(nil)) != nil || api.String((*api.OptionalString)(nil)) != nil || (*api.OptionalString)(nil).Get() != nil {
		bad("String", "typed nil did not map to unset")
	}
	ok("String")
	for _, v := range []int{0, 1, -1, math.MaxInt32, math.MinInt64, math.MaxInt64} {
		if o := api.Int(v); o == nil || o.Value != int64(v) {
			bad("Int", fmt.Sprintf("Int(%d) = %v", v, o))
		}
		vv := v
		if o := api.Int(&vv); o == nil || o.Value != int64(v) {
			bad("Int", fmt.Sprintf("Int(&%d) = %v", v, o))
		}
		if o := api.Int(&api.OptionalInt{Value: int64(v)}); o == nil || o.Value != int64(v) {
			bad("Int", "Int(*OptionalInt) lost the value")
		}
		if g := (&api.OptionalInt{Value: int64(v)}).Get(); g == nil || *g != v {
			bad("Int", "OptionalInt.Get lost the value")
		}
	}
	if api.Int((*int)(nil)) != nil || api.Int((*api.OptionalInt)(nil)) != nil || (*api.OptionalInt)(nil).Get() != nil {
		bad("Int", "typed nil did not map to unset")
	}
	ok("Int")
	for _, v := range []int32{0, 1, -1, math.MaxInt32, math.MinInt32} {
		vv := v
		if o := api.Int32(v); o == nil || o.Value != v {
			bad("Int32", fmt.Sprintf("Int32(%d) = %v", v, o))
		}
		if o := api.Int32(&vv); o == nil || o.Value != v {
			bad("Int32", "Int32(*int32) lost the value")
		}
		if o := api.Int32(&api.OptionalInt32{Value: v}); o == nil || o.Value != v {
			bad("Int32", "Int32(*OptionalInt32) lost the value")
		}
		if g := (&api.OptionalInt32{Value: v}).Get(); g == nil || *g != v {
			bad("Int32", "Get lost the value")
		}
	}
	if api.Int32((*int32)(nil)) != nil || api.Int32((*api.OptionalInt32)(nil)) != nil || (*api.OptionalInt32)(nil).Get() != nil {
		bad("Int32", "typed nil did not map to unset")
	}
	ok("Int32")
	for _, v := range bU32 {
		vv := v
		if o := api.UInt32(v); o == nil || o.Value != v {
			bad("UInt32", fmt.Sprintf("UInt32(%d) = %v", v, o))
		}
		if o := api.UInt32(&vv); o == nil || o.Value != v {
			bad("UInt32", "UInt32(*uint32) lost the value")
		}
		if o := api.UInt32(&api.OptionalUInt32{Value: v}); o == nil || o.Value != v {
			bad("UInt32", "UInt32(*OptionalUInt32) lost the value")
		}
		if g := (&api.OptionalUInt32{Value: v}).Get(); g == nil || *g != v {
			bad("UInt32", "Get lost the value")
		}
	}
	if api.UInt32((*uint32)(nil)) != nil || api.UInt32((*api.OptionalUInt32)(nil)) != nil || (*api.OptionalUInt32)(nil).Get() != nil {
		bad("UInt32", "typed nil did not map to unset")
	}
	ok("UInt32")
	for _, v := range bI64 {
		vv := v
		if o := api.Int64(v); o == nil || o.Value != v {
			bad("Int64", fmt.Sprintf("Int64(%d) = %v", v, o))
		}
		if o := api.Int64(&vv); o == nil || o.Value != v {
			bad("Int64", "Int64(*int64) lost the value")
		}
		if o := api.Int64(&api.OptionalInt64{Value: v}); o == nil || o.Value != v {
			bad("Int64", "Int64(*OptionalInt64) lost the value")
		}
		if g := (&api.OptionalInt64{Value: v}).Get(); g == nil || *g != v {
			bad("Int64", "Get lost the value")
		}
		if v >= 0 {
			if o := api.Int64(int(v)); o == nil || o.Value != v {
				bad("Int64", "Int64(int) lost the value")
			}
			if o := api.Int64(uint(v)); o == nil || o.Value != v {
				bad("Int64", "Int64(uint) lost the value")
			}
			u := uint64(v)
			if o := api.Int64(u); o == nil || o.Value != v {
				bad("Int64", "Int64(uint64) lost the value")
			}
			if o := api.Int64(&u); o == nil || o.Value != v {
				bad("Int64", "Int64(*uint64) lost the value")
			}
		}
	}
	if api.Int64((*int64)(nil)) != nil || api.Int64((*uint64)(nil)) != nil || api.Int64((*api.OptionalInt64)(nil)) != nil || (*api.OptionalInt64)(nil).Get() != nil {
		bad("Int64", "typed nil did not map to unset")
	}
	ok("Int64")
	for _, v := range bU64 {
		vv := v
		if o := api.UInt64(v); o == nil || o.Value != v {
			bad("UInt64", fmt.Sprintf("UInt64(%d) = %v", v, o))
		}
		if o := api.UInt64(&vv); o == nil || o.Value != v {
			bad("UInt64", "UInt64(*uint64) lost the value")
		}
		if o := api.UInt64(&api.OptionalUInt64{Value: v}); o == nil || o.Value != v {
			bad("UInt64", "UInt64(*OptionalUInt64) lost the value")
		}
		if g := (&api.OptionalUInt64{Value: v}).Get(); g == nil || *g != v {
			bad("UInt64", "Get lost the value")
		}
		if v <= math.MaxInt64 {
			i := int64(v)
			if o := api.UInt64(i); o == nil || o.Value != v {
				bad("UInt64", "UInt64(int64) lost the value")
			}
			if o := api.UInt64(&i); o == nil || o.Value != v {
				bad("UInt64", "UInt64(*int64) lost the value")
			}
			if o := api.UInt64(int(i)); o == nil || o.Value != v {
				bad("UInt64", "UInt64(int) lost the value")
			}
			if o := api.UInt64(uint(v)); o == nil || o.Value != v {
				bad("UInt64", "UInt64(uint) lost the value")
			}
		}
	}
	if api.UInt64((*int64)(nil)) != nil || api.UInt64((*uint64)(nil)) != nil || api.UInt64((*api.OptionalUInt64)(nil)) != nil || (*api.OptionalUInt64)(nil).Get() != nil {
		bad("UInt64", "typed nil did not map to unset")
	}
	ok("UInt64")
	for _, v := range []bool{false, true} {
		vv := v
		if o := api.Bool(v); o == nil || o.Value != v {
			bad("Bool", fmt.Sprintf("Bool(%v) = %v", v, o))
		}
		if o := api.Bool(&vv); o == nil || o.Value != v {
			bad("Bool", "Bool(*bool) lost the value")
		}
		if o := api.Bool(&api.OptionalBool{Value: v}); o == nil || o.Value != v {
			bad("Bool", "Bool(*OptionalBool) lost the value")
		}
		if g := (&api.OptionalBool{Value: v}).Get(); g == nil || *g != v {
			bad("Bool", "Get lost the value")
		}
	}
	if api.Bool((*bool)(nil)) != nil || api.Bool((*api.OptionalBool)(nil)) != nil || (*api.OptionalBool)(nil).Get() != nil {
		bad("Bool", "typed nil did not map to unset")
	}
	ok("Bool")
	for _, v := range []os.FileMode{0, 0o644, 0o777, os.ModeDevice | 0o600, os.ModeCharDevice | os.ModeDevice | 0o666} {
		vv := v
		if o := api.FileMode(v); o == nil || os.FileMode(o.Value) != v {
			bad("FileMode", fmt.Sprintf("FileMode(%v) = %v", v, o))
		}
		if o := api.FileMode(&vv); o == nil || os.FileMode(o.Value) != v {
			bad("FileMode", "FileMode(*os.FileMode) lost the value")
		}
		if o := api.FileMode(uint32(v)); o == nil || os.FileMode(o.Value) != v {
			bad("FileMode", "FileMode(uint32) lost the value")
		}
		if o := api.FileMode(&api.OptionalFileMode{Value: uint32(v)}); o == nil || os.FileMode(o.Value) != v {
			bad("FileMode", "FileMode(*OptionalFileMode) lost the value")
		}
		if g := (&api.OptionalFileMode{Value: uint32(v)}).Get(); g == nil || *g != v {
			bad("FileMode", "Get lost the value")
		}
	}
	if api.FileMode((*os.FileMode)(nil)) != nil || api.FileMode((*api.OptionalFileMode)(nil)) != nil || (*api.OptionalFileMode)(nil).Get() != nil {
		bad("FileMode", "typed nil did not map to unset")
	}
	ok("FileMode")
}

func init() {
	register(&Check{
		ID: "C14", Level: "exploration", MinNontriv: 40,
		Anchors: []string{"pkg/api/event.go", "pkg/api/optional.go", "pkg/api/resources.go", "pkg/api/device.go", "pkg/api/mount.go", "pkg/api/hooks.go", "pkg/api/env.go", "pkg/api/helpers.go"},
		Rule:    "all 8191 valid event masks (PrettyString then ParseEventMask, exhaustive); every optional constructor x every accepted argument type x boundary values and typed nils; seeded random OCI/NRI resources, mounts, devices, hooks, env with boundary integers, unset-vs-zero optionals and empty collections through both round trips; Copy() compared, walked for shared addresses and mutated; ToOCI() results scribbled over (the NRI original must not change); the mask parser's first uses in the process from 16 goroutines at once under the race detector; distinct = distinct shapes (which optionals present, collection sizes) per family",
		Assumptions: []string{
			"environment entries have the name=value form (an entry without '=' has no NRI representation)",
			"block-I/O and RDT classes and device-cgroup rules are outside what Copy()/the OCI representation are stated to carry and are excluded from those comparisons where not carried",
			"integers outside the target type's range (e.g. uint64 > MaxInt64 into Int64) are not representable and not generated for the constructors",
		},
		Exhaustive: func(string) bool { return false },
		Plan:       func(tier string) []ev.ChildSpec { return make([]ev.ChildSpec, tierN(tier, 2, 8)) },
		Parallel:   func(string) int { return 8 },
		Run:        runC14,
	})
}
