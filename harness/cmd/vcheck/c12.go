package main

// C12 — both wire encodings of every protocol message agree.
// Descriptor-driven population of every message type of pkg/api that has the specialised
// codec; cross-decoding, round trips, size and presence comparison.

import (
	"fmt"
	"math"
	"math/rand/v2"
	"sort"
	"strings"

	"nriverif/internal/ev"

	_ "github.com/containerd/nri/pkg/api"
	"google.golang.org/protobuf/encoding/prototext"
	"google.golang.org/protobuf/encoding/protowire"
	"google.golang.org/protobuf/proto"
	"google.golang.org/protobuf/reflect/protoreflect"
	"google.golang.org/protobuf/reflect/protoregistry"
)

type vtMessage interface {
	proto.Message
	MarshalVT() ([]byte, error)
	UnmarshalVT([]byte) error
	SizeVT() int
}

func c12Types() []protoreflect.MessageType {
	var out []protoreflect.MessageType
	protoregistry.GlobalTypes.RangeMessages(func(mt protoreflect.MessageType) bool {
		if !strings.HasPrefix(string(mt.Descriptor().FullName()), "nri.pkg.api.v1alpha1.") {
			return true
		}
		if mt.Descriptor().IsMapEntry() {
			return true
		}
		if _, ok := mt.New().Interface().(vtMessage); ok {
			out = append(out, mt)
		}
		return true
	})
	sort.Slice(out, func(i, j int) bool { return out[i].Descriptor().FullName() < out[j].Descriptor().FullName() })
	return out
}

type c12gen struct {
	rng *rand.Rand
}

var c12Strings = []string{"", "a", "key", "-marked", "ünïcödé ✓", "with\x00nul", strings.Repeat("x", 300), "a=b=c", "/dev/null"}

func (g *c12gen) scalar(fd protoreflect.FieldDescriptor, mode int) protoreflect.Value {
	// mode 0: zero value, 1: boundary, 2: random
	b := g.rng.IntN(4)
	switch fd.Kind() {
	case protoreflect.BoolKind:
		return protoreflect.ValueOfBool(mode != 0 && g.rng.IntN(2) == 0 || mode == 1)
	case protoreflect.Int32Kind, protoreflect.Sint32Kind, protoreflect.Sfixed32Kind:
		switch mode {
		case 0:
			return protoreflect.ValueOfInt32(0)
		case 1:
			return protoreflect.ValueOfInt32([]int32{1, -1, math.MaxInt32, math.MinInt32}[b])
		}
		return protoreflect.ValueOfInt32(int32(g.rng.Uint32()))
	case protoreflect.Int64Kind, protoreflect.Sint64Kind, protoreflect.Sfixed64Kind:
		switch mode {
		case 0:
			return protoreflect.ValueOfInt64(0)
		case 1:
			return protoreflect.ValueOfInt64([]int64{1, -1, math.MaxInt64, math.MinInt64}[b])
		}
		return protoreflect.ValueOfInt64(int64(g.rng.Uint64()))
	case protoreflect.Uint32Kind, protoreflect.Fixed32Kind:
		switch mode {
		case 0:
			return protoreflect.ValueOfUint32(0)
		case 1:
			return protoreflect.ValueOfUint32([]uint32{1, 127, 128, math.MaxUint32}[b])
		}
		return protoreflect.ValueOfUint32(g.rng.Uint32())
	case protoreflect.Uint64Kind, protoreflect.Fixed64Kind:
		switch mode {
		case 0:
			return protoreflect.ValueOfUint64(0)
		case 1:
			return protoreflect.ValueOfUint64([]uint64{1, 1 << 32, 1<<63 - 1, math.MaxUint64}[b])
		}
		return protoreflect.ValueOfUint64(g.rng.Uint64())
	case protoreflect.FloatKind:
		return protoreflect.ValueOfFloat32(float32(g.rng.Float64()))
	case protoreflect.DoubleKind:
		return protoreflect.ValueOfFloat64(g.rng.Float64())
	case protoreflect.StringKind:
		if mode == 0 {
			return protoreflect.ValueOfString("")
		}
		if mode == 1 {
			return protoreflect.ValueOfString(c12Strings[g.rng.IntN(len(c12Strings))])
		}
		return protoreflect.ValueOfString(fmt.Sprintf("s%d", g.rng.Uint32()))
	case protoreflect.BytesKind:
		if mode == 0 {
			return protoreflect.ValueOfBytes([]byte{})
		}
		return protoreflect.ValueOfBytes([]byte(fmt.Sprintf("b%d", g.rng.Uint32())))
	case protoreflect.EnumKind:
		vals := fd.Enum().Values()
		if mode == 0 {
			return protoreflect.ValueOfEnum(0)
		}
		if mode == 1 && g.rng.IntN(3) == 0 {
			return protoreflect.ValueOfEnum(protoreflect.EnumNumber(1000 + g.rng.IntN(10))) // unknown enum numbers are legal on the wire
		}
		return protoreflect.ValueOfEnum(vals.Get(g.rng.IntN(vals.Len())).Number())
	}
	panic("unhandled kind " + fd.Kind().String())
}

// fillField populates one field. mode as in scalar; depth bounds nesting; p = probability that
// nested fields are populated.
func (g *c12gen) fillField(m protoreflect.Message, fd protoreflect.FieldDescriptor, mode, depth int, p float64) {
	switch {
	case fd.IsMap():
		mp := m.Mutable(fd).Map()
		n := 1 + g.rng.IntN(3)
		if mode == 0 {
			return // an empty map is indistinguishable from an absent one on the wire
		}
		for i := 0; i < n; i++ {
			k := g.scalar(fd.MapKey(), 1+g.rng.IntN(2)).MapKey()
			if fd.MapValue().Kind() == protoreflect.MessageKind {
				v := mp.NewValue()
				g.fill(v.Message(), depth-1, p)
				mp.Set(k, v)
			} else {
				mp.Set(k, g.scalar(fd.MapValue(), g.rng.IntN(3)))
			}
		}
	case fd.IsList():
		l := m.Mutable(fd).List()
		if mode == 0 {
			return
		}
		n := 1 + g.rng.IntN(3)
		for i := 0; i < n; i++ {
			if fd.Kind() == protoreflect.MessageKind {
				v := l.NewElement()
				if g.rng.IntN(4) != 0 {
					g.fill(v.Message(), depth-1, p)
				}
				l.Append(v)
			} else {
				l.Append(g.scalar(fd, g.rng.IntN(3)))
			}
		}
	case fd.Kind() == protoreflect.MessageKind:
		sub := m.Mutable(fd).Message() // set (present) even if left empty
		if mode != 0 {
			g.fill(sub, depth-1, p)
			if mode == 1 {
				// boundary values in every scalar of a wrapper
				fds := sub.Descriptor().Fields()
				for i := 0; i < fds.Len(); i++ {
					f := fds.Get(i)
					if !f.IsList() && !f.IsMap() && f.Kind() != protoreflect.MessageKind {
						sub.Set(f, g.scalar(f, 1))
					}
				}
			}
		}
	default:
		v := g.scalar(fd, mode)
		m.Set(fd, v)
	}
}

func (g *c12gen) fill(m protoreflect.Message, depth int, p float64) {
	if depth <= 0 {
		return
	}
	fds := m.Descriptor().Fields()
	for i := 0; i < fds.Len(); i++ {
		if g.rng.Float64() < p {
			g.fillField(m, fds.Get(i), g.rng.IntN(3), depth, p)
		}
	}
}

// presence lists every populated field path (message-kind fields: set vs unset matters).
func presence(m protoreflect.Message, prefix string, out *[]string) {
	m.Range(func(fd protoreflect.FieldDescriptor, v protoreflect.Value) bool {
		path := prefix + "." + string(fd.Name())
		*out = append(*out, path)
		switch {
		case fd.IsMap():
			if fd.MapValue().Kind() == protoreflect.MessageKind {
				v.Map().Range(func(k protoreflect.MapKey, mv protoreflect.Value) bool {
					presence(mv.Message(), path+"["+k.String()+"]", out)
					return true
				})
			}
		case fd.IsList():
			if fd.Kind() == protoreflect.MessageKind {
				for i := 0; i < v.List().Len(); i++ {
					presence(v.List().Get(i).Message(), fmt.Sprintf("%s[%d]", path, i), out)
				}
			}
		case fd.Kind() == protoreflect.MessageKind:
			presence(v.Message(), path, out)
		}
		return true
	})
}

func presenceSig(m proto.Message) string {
	var out []string
	presence(m.ProtoReflect(), "", &out)
	sort.Strings(out)
	return strings.Join(out, ",")
}

func c12Check(res *ev.Result, mt protoreflect.MessageType, msg proto.Message, how string) bool {
	name := string(mt.Descriptor().Name())
	vm := msg.(vtMessage)
	ok := true
	fail := func(rule, what string) {
		ok = false
		txt, _ := prototext.MarshalOptions{Multiline: false}.Marshal(msg)
		if len(txt) > 1500 {
			txt = txt[:1500]
		}
		res.Violate(fmt.Sprintf("C12/%s/%s", rule, name), what, map[string]any{"type": name, "how": how, "message": string(txt)})
	}
	eq := func(a, b proto.Message) bool { return proto.Equal(a, b) && presenceSig(a) == presenceSig(b) }

	vtb, err := vm.MarshalVT()
	if err != nil {
		fail("vt-marshal-error", err.Error())
		return false
	}
	if n := vm.SizeVT(); n != len(vtb) {
		fail("size-mismatch", fmt.Sprintf("SizeVT()=%d but MarshalVT wrote %d bytes", n, len(vtb)))
	}
	stb, err := proto.Marshal(msg)
	if err != nil {
		fail("std-marshal-error", err.Error())
		return false
	}
	// specialised bytes -> reflection decoder
	a := mt.New().Interface()
	if err := proto.Unmarshal(vtb, a); err != nil {
		fail("vt-bytes-std-decode", "reflection decoder rejects the specialised encoder's bytes: "+err.Error())
	} else if !eq(msg, a) {
		fail("vt-bytes-std-decode", "reflection decoder reads a different message from the specialised encoder's bytes")
	}
	// reflection bytes -> specialised decoder
	b := mt.New().Interface().(vtMessage)
	if err := b.UnmarshalVT(stb); err != nil {
		fail("std-bytes-vt-decode", "specialised decoder rejects the reflection encoder's bytes: "+err.Error())
	} else if !eq(msg, b) {
		fail("std-bytes-vt-decode", "specialised decoder reads a different message from the reflection encoder's bytes")
	}
	// specialised round trip
	c := mt.New().Interface().(vtMessage)
	if err := c.UnmarshalVT(vtb); err != nil {
		fail("vt-roundtrip", "specialised decoder rejects its own encoder's bytes: "+err.Error())
	} else if !eq(msg, c) {
		fail("vt-roundtrip", "specialised round trip does not return the original message")
	}
	// reflection round trip
	d := mt.New().Interface()
	if err := proto.Unmarshal(stb, d); err != nil || !eq(msg, d) {
		fail("std-roundtrip", fmt.Sprintf("reflection round trip does not return the original message (err=%v)", err))
	}
	return ok
}

// c12Unknown encodes n fields with numbers no message of this protocol uses: varints up to ten bytes long
// (a negative int64, a uint64 above 2^63), fixed-width values and byte strings.
func c12Unknown(g *c12gen, n int) []byte {
	var b []byte
	for i := 0; i < n; i++ {
		num := protowire.Number(1900 + g.rng.IntN(50))
		switch g.rng.IntN(5) {
		case 0:
			b = protowire.AppendTag(b, num, protowire.VarintType)
			b = protowire.AppendVarint(b, uint64(g.rng.IntN(300)))
		case 1:
			b = protowire.AppendTag(b, num, protowire.VarintType)
			b = protowire.AppendVarint(b, ^uint64(g.rng.IntN(1000))) // ten bytes: a negative int64 / a huge uint64
		case 2:
			b = protowire.AppendTag(b, num, protowire.Fixed64Type)
			b = protowire.AppendFixed64(b, g.rng.Uint64())
		case 3:
			b = protowire.AppendTag(b, num, protowire.Fixed32Type)
			b = protowire.AppendFixed32(b, g.rng.Uint32())
		default:
			b = protowire.AppendTag(b, num, protowire.BytesType)
			b = protowire.AppendBytes(b, []byte(fmt.Sprintf("later-revision-%d", g.rng.Uint32())))
		}
	}
	return b
}

func runC12(c *ev.ChildEnv, res *ev.Result) {
	types := c12Types()
	if c.Batch == 0 {
		res.Count("message_types_with_specialised_codec", int64(len(types)))
	}
	per := tierN(c.Tier, 3000, 150000)
	g := &c12gen{rng: rand.New(rand.NewPCG(uint64(c.Seed), uint64(c.Batch)+1200))}
	for ti, mt := range types {
		if ti%c.Batches != c.Batch {
			continue
		}
		name := string(mt.Descriptor().Name())
		fds := mt.Descriptor().Fields()
		// systematic: each field alone at each mode; and the empty message
		empty := mt.New().Interface()
		res.Eval()
		c12Check(res, mt, empty, "empty")
		for i := 0; i < fds.Len(); i++ {
			for mode := 0; mode < 3; mode++ {
				for rep := 0; rep < 4; rep++ {
					m := mt.New()
					g.fillField(m, fds.Get(i), mode, 4, 0.6)
					res.Eval()
					if c12Check(res, mt, m.Interface(), fmt.Sprintf("field %s alone mode %d", fds.Get(i).Name(), mode)) {
						res.Seen(fmt.Sprintf("%s|%s|m%d", name, fds.Get(i).Name(), mode))
					}
				}
			}
		}
		c12LengthSweep(res, mt, c.Tier)
		// fields of a later protocol revision (unknown to this build): both codecs keep them, in order
		for v := 0; v < 6; v++ {
			m := mt.New()
			if v%2 == 1 {
				g.fill(m, 3, 0.5)
			}
			m.SetUnknown(c12Unknown(g, 1+v%3))
			res.Eval()
			if c12Check(res, mt, m.Interface(), fmt.Sprintf("%d unknown fields", 1+v%3)) {
				res.Seen(fmt.Sprintf("%s|unknown-fields|%d", name, 1+v%3))
			}
		}
		// random combinations
		for i := 0; i < per; i++ {
			m := mt.New()
			g.fill(m, 4, []float64{0.2, 0.5, 0.9}[i%3])
			if i%16 == 5 {
				m.SetUnknown(c12Unknown(g, 1+g.rng.IntN(3)))
			}
			res.Eval()
			if c12Check(res, mt, m.Interface(), "random") && i < 3 {
				txt, _ := prototext.MarshalOptions{}.Marshal(m.Interface())
				if len(txt) > 400 {
					txt = txt[:400]
				}
				b, _ := m.Interface().(vtMessage).MarshalVT()
				res.Sample(map[string]any{"type": name, "message": string(txt), "vt_bytes": len(b)})
			}
		}
		res.Seen(name + "|random")
	}
}

func init() {
	register(&Check{
		ID: "C12", Level: "exploration", MinNontriv: 100,
		Rule: "every message type of pkg/api with MarshalVT/UnmarshalVT/SizeVT (found through the protobuf registry at run time): the empty message, every field alone at {zero-but-set, boundary, random} x 4, and seeded random combinations (nesting depth 4, population 0.2/0.5/0.9); oracles: cross-decoding both ways, both round trips, SizeVT = bytes written, proto.Equal plus explicit populated-field-path comparison; unknown fields (1-3 per message: varints up to ten bytes, fixed-width, bytes) on every type and every 16th random message; every length-delimited field (string, bytes, map entry by value and by key, repeated string, nested message) with contents sized 118..136 and 16370..16390 bytes, so that each length prefix crosses its varint boundaries; distinct = (type, field, mode) tuples checked",
		Assumptions: []string{
			"strings are valid UTF-8 and repeated/map message values are non-nil (outside what either encoder defines)",
			"the in-process WebAssembly call path itself cannot be driven in this image (no wasm plugin can be built); the codec pair it relies on is executed natively",
		},
		Plan:     func(tier string) []ev.ChildSpec { return make([]ev.ChildSpec, tierN(tier, 4, 12)) },
		Parallel: func(string) int { return 12 },
		Run:      runC12,
	})
}
