package main

// C19 — unsolicited updates reach the runtime once, unchanged, and never concurrently.

import (
	"context"
	"errors"
	"fmt"
	"math/rand/v2"
	"net"
	"os"
	"os/exec"
	"path/filepath"
	"sort"
	"strings"
	"sync"
	"sync/atomic"
	"time"

	"nriverif/internal/ev"
	"nriverif/internal/rig"

	"github.com/anishathalye/porcupine"
	"github.com/containerd/nri/pkg/adaptation"
	"github.com/containerd/nri/pkg/api"
	"github.com/containerd/nri/pkg/stub"
	"google.golang.org/protobuf/proto"
)

type c19Call struct {
	ID          string // unique id of the update batch (prefix of every container id in it)
	Plugin      int
	Sent        []*api.ContainerUpdate
	Call, Ret   int64
	Failed      []*api.ContainerUpdate
	Err         error
	Enter, Exit int64 // ticks of the UpdateFn invocation(s) that carried it
	Seen        int
	Arg         []*api.ContainerUpdate
}

// c19Expect is the deterministic callback result for an argument list.
func c19Expect(u []*api.ContainerUpdate) ([]*api.ContainerUpdate, error) {
	var failed []*api.ContainerUpdate
	for _, x := range u {
		if strings.Contains(x.ContainerId, ".err") {
			return nil, fmt.Errorf("callback refuses %s", x.ContainerId)
		}
		if n := len(x.ContainerId); n > 0 && (x.ContainerId[n-1]-'0')%2 == 1 {
			failed = append(failed, x)
		}
	}
	return failed, nil
}

func updatesEqual(a, b []*api.ContainerUpdate) bool {
	if len(a) != len(b) {
		return false
	}
	for i := range a {
		if !proto.Equal(a[i], b[i]) {
			return false
		}
	}
	return true
}

func runC19Round(dir string, g *rand.Rand, nplugins, callers, perPlugin, perCaller int, res *ev.Result, tag string) {
	what := map[string]any{"round": tag, "plugins": nplugins, "runtime_callers": callers, "updates_per_plugin": perPlugin}
	rt, err := rig.NewRuntime(dir)
	if err != nil {
		res.Note("runtime: %v", err)
		return
	}
	slowEntered := make(chan struct{}, 1)
	var inUpdate, inHandler atomic.Int64
	var overlapUU, overlapUH, overlapHU atomic.Int64
	var mu sync.Mutex
	calls := map[string]*c19Call{}
	var fnLog []*c19Call // one entry per UpdateFn invocation (ID filled from the argument)
	type reqRec struct{ First, Call, Ret int64 }
	reqFirst := map[string]int64{}
	rt.UpdateFn = func(_ context.Context, u []*api.ContainerUpdate) ([]*api.ContainerUpdate, error) {
		if n := inUpdate.Add(1); n > 1 {
			overlapUU.Add(1)
		}
		if inHandler.Load() > 0 {
			overlapUH.Add(1)
		}
		enter := rig.Tick()
		arg := cloneUpdates(u)
		time.Sleep(time.Duration(50+len(u)*20) * time.Microsecond)
		if len(u) > 0 && strings.Contains(u[0].ContainerId, ".slow") {
			// a long-running callback; its sender goes away meanwhile (see below)
			select {
			case slowEntered <- struct{}{}:
			default:
			}
			for i := 0; i < 150; i++ {
				time.Sleep(time.Millisecond)
				if inHandler.Load() > 0 {
					overlapUH.Add(1)
				}
			}
		}
		if inHandler.Load() > 0 {
			overlapUH.Add(1)
		}
		failed, err := c19Expect(u)
		exit := rig.Tick()
		id := ""
		if len(u) > 0 {
			id = strings.SplitN(u[0].ContainerId, ".", 2)[0]
		}
		mu.Lock()
		fnLog = append(fnLog, &c19Call{ID: id, Arg: arg, Enter: enter, Exit: exit})
		mu.Unlock()
		inUpdate.Add(-1)
		return failed, err
	}
	if err := rt.Start(); err != nil {
		res.Note("start: %v", err)
		return
	}
	var plugins []*rig.Plugin
	defer func() {
		rt.Stop()
		for _, p := range plugins {
			p.StopStub()
		}
	}()
	for i := 0; i < nplugins; i++ {
		h := rig.Handlers{
			Any: func(e api.Event, pod *api.PodSandbox, ctr *api.Container) {
				inHandler.Add(1)
				if inUpdate.Load() > 0 {
					overlapHU.Add(1)
				}
				id := pod.GetId()
				t := rig.Tick()
				mu.Lock()
				if _, ok := reqFirst[id]; !ok {
					reqFirst[id] = t
				}
				mu.Unlock()
				time.Sleep(30 * time.Microsecond)
				if inUpdate.Load() > 0 {
					overlapHU.Add(1)
				}
				inHandler.Add(-1)
			},
		}
		p := rig.NewPlugin(fmt.Sprintf("u%d", i), fmt.Sprintf("%02d", g.IntN(100)), 0, h)
		if err := p.Connect(rt.Sock); err != nil {
			res.Note("connect: %v", err)
			return
		}
		plugins = append(plugins, p)
	}
	for _, p := range plugins {
		if !p.WaitSynced(20 * time.Second) {
			res.Inconcl()
			res.Note("%s: plugin not synchronized", tag)
			return
		}
	}
	var wg sync.WaitGroup
	// plugins issuing unsolicited updates
	for pi, p := range plugins {
		seed := g.Uint64()
		wg.Add(1)
		go func() {
			defer wg.Done()
			lg := rand.New(rand.NewPCG(seed, 19))
			for j := 0; j < perPlugin; j++ {
				id := fmt.Sprintf("%sp%dn%d", tag, pi, j)
				n := lg.IntN(5)
				var ups []*api.ContainerUpdate
				for k := 0; k < n; k++ {
					cid := fmt.Sprintf("%s.c%d", id, lg.IntN(10))
					if lg.IntN(25) == 0 {
						cid = fmt.Sprintf("%s.err%d", id, k)
					}
					u := &api.ContainerUpdate{ContainerId: cid, IgnoreFailure: lg.IntN(2) == 0}
					switch lg.IntN(4) {
					case 0:
						u.SetLinuxCPUShares(uint64(lg.IntN(10000)))
					case 1:
						u.SetLinuxMemoryLimit(int64(lg.IntN(1 << 30)))
						u.AddLinuxUnified("memory.high", fmt.Sprint(lg.IntN(1000)))
					case 2:
						u.AddLinuxHugepageLimit("2MB", uint64(lg.IntN(100)))
						u.SetLinuxPidLimits(int64(lg.IntN(500)))
					}
					ups = append(ups, u)
				}
				if n == 0 {
					// an empty list still identifies itself through a marker update without resources
					ups = []*api.ContainerUpdate{{ContainerId: id + ".c0"}}
				}
				c := &c19Call{ID: id, Plugin: pi, Sent: cloneUpdates(ups)}
				c.Call = rig.Tick()
				c.Failed, c.Err = p.Stub.UpdateContainers(ups)
				c.Ret = rig.Tick()
				mu.Lock()
				calls[id] = c
				mu.Unlock()
			}
		}()
	}
	// runtime callers issuing lifecycle requests
	var reqs []*c06Req
	for w := 0; w < callers; w++ {
		seed := g.Uint64()
		wg.Add(1)
		go func(w int) {
			defer wg.Done()
			lg := rand.New(rand.NewPCG(seed, 20))
			for j := 0; j < perCaller; j++ {
				id := fmt.Sprintf("%sq%dn%d", tag, w, j)
				q := &c06Req{ID: id, Event: allEvents[lg.IntN(len(allEvents))]}
				b := rt.A.BlockPluginSync()
				q.Call = rig.Tick()
				_, q.Err = c06Issue(rt.A, q.Event, id)
				q.Ret = rig.Tick()
				b.Unblock()
				mu.Lock()
				reqs = append(reqs, q)
				mu.Unlock()
			}
		}(w)
	}
	done := make(chan struct{})
	go func() { wg.Wait(); close(done) }()
	if st := rig.Await(done, 60*time.Second, 180*time.Second); st == "hang" {
		res.Violate("C19/hang", "updates or requests did not finish; goroutines:\n"+nriStacks(), what)
		return
	}

	// a plugin's connection goes away while its update is being processed by the callback: the callback
	// still must not overlap the next request or another plugin's update
	if len(plugins) >= 2 {
		victim, other := plugins[len(plugins)-1], plugins[0]
		id := tag + "pXslow"
		sc := &c19Call{ID: id, Plugin: len(plugins) - 1, Sent: []*api.ContainerUpdate{{ContainerId: id + ".slow0"}}}
		vdone := make(chan struct{})
		go func() {
			defer close(vdone)
			sc.Call = rig.Tick()
			sc.Failed, sc.Err = victim.Stub.UpdateContainers(cloneUpdates(sc.Sent))
			sc.Ret = rig.Tick()
		}()
		select {
		case <-slowEntered:
			go victim.StopStub()
			time.Sleep(2 * time.Millisecond)
			var w2 sync.WaitGroup
			w2.Add(2)
			go func() {
				defer w2.Done()
				b := rt.A.BlockPluginSync()
				c06Issue(rt.A, api.Event_RUN_POD_SANDBOX, tag+"qXafterdrop")
				b.Unblock()
			}()
			go func() {
				defer w2.Done()
				oid := tag + "pYafterdrop"
				oc := &c19Call{ID: oid, Plugin: 0, Sent: []*api.ContainerUpdate{{ContainerId: oid + ".c2"}}}
				oc.Call = rig.Tick()
				oc.Failed, oc.Err = other.Stub.UpdateContainers(cloneUpdates(oc.Sent))
				oc.Ret = rig.Tick()
				mu.Lock()
				calls[oid] = oc
				mu.Unlock()
			}()
			w2.Wait()
			res.Count("disconnects_during_callback", 1)
		case <-time.After(20 * time.Second):
			res.Note("%s: slow update never reached the callback", tag)
		}
		if st := rig.Await(vdone, 5*time.Second, 30*time.Second); st == "hang" {
			res.Violate("C19/hang", "UpdateContainers of a stopped stub never returned; goroutines:\n"+nriStacks(), what)
		}
	}

	// ---------------------------------------------------------------- oracles
	if n := overlapUU.Load(); n > 0 {
		res.Violate("C19/concurrent-updates", fmt.Sprintf("the update callback ran concurrently with itself %d times", n), what)
	}
	if n := overlapUH.Load() + overlapHU.Load(); n > 0 {
		res.Violate("C19/update-during-request", fmt.Sprintf("the update callback overlapped a plugin's lifecycle handler (i.e. the processing of another request) %d times", n), what)
	}
	for _, f := range fnLog {
		c := calls[f.ID]
		if c == nil && strings.HasSuffix(f.ID, "pXslow") {
			continue // the sender was stopped mid-call; only the overlap monitors apply to it
		}
		if c == nil {
			res.Violate("C19/unknown-update", fmt.Sprintf("the callback received an update list no plugin sent: %v", f.Arg), what)
			continue
		}
		c.Seen++
		c.Arg, c.Enter, c.Exit = f.Arg, f.Enter, f.Exit
	}
	waiting := 0
	for _, c := range calls {
		switch {
		case c.Seen == 0:
			res.Violate("C19/update-lost", fmt.Sprintf("update %s sent by plugin %d never reached the callback (plugin got failed=%d err=%v)", c.ID, c.Plugin, len(c.Failed), c.Err), what)
			continue
		case c.Seen > 1:
			res.Violate("C19/update-duplicated", fmt.Sprintf("update %s reached the callback %d times", c.ID, c.Seen), what)
		}
		if !updatesEqual(c.Sent, c.Arg) {
			res.Violate("C19/update-modified", fmt.Sprintf("update %s: the callback's argument differs from what the plugin sent: sent %v got %v", c.ID, c.Sent, c.Arg), what)
		}
		wantFailed, wantErr := c19Expect(c.Sent)
		if wantErr != nil {
			if c.Err == nil || !strings.Contains(c.Err.Error(), wantErr.Error()) {
				res.Violate("C19/error-not-returned", fmt.Sprintf("update %s: callback failed with %q, plugin got err=%v failed=%d", c.ID, wantErr, c.Err, len(c.Failed)), what)
			}
			res.Seen("callback-error")
		} else {
			if c.Err != nil {
				res.Violate("C19/unexpected-error", fmt.Sprintf("update %s: plugin got error %v", c.ID, c.Err), what)
			} else if !updatesEqual(wantFailed, c.Failed) {
				res.Violate("C19/failed-list-differs", fmt.Sprintf("update %s: callback returned %d failed updates %v, plugin received %d: %v", c.ID, len(wantFailed), wantFailed, len(c.Failed), c.Failed), what)
			}
			res.Seen(fmt.Sprintf("updates%d|failed%d", len(c.Sent), len(wantFailed)))
		}
		if c.Enter < c.Call || c.Exit > c.Ret {
			res.Violate("C19/outside-call", fmt.Sprintf("update %s: the callback ran outside the plugin's call window", c.ID), what)
		}
	}
	// how often did the lock actually serialise: call windows overlapping
	type win struct{ call, ret int64 }
	var wins []win
	for _, c := range calls {
		wins = append(wins, win{c.Call, c.Ret})
	}
	for _, q := range reqs {
		wins = append(wins, win{q.Call, q.Ret})
	}
	sort.Slice(wins, func(i, j int) bool { return wins[i].call < wins[j].call })
	var maxRet int64
	for _, w := range wins {
		if w.call < maxRet {
			waiting++
		}
		if w.ret > maxRet {
			maxRet = w.ret
		}
	}
	res.Count("operations_with_overlapping_call_windows", int64(waiting))
	res.Count("updates", int64(len(calls)))
	res.Count("requests", int64(len(reqs)))
	// porcupine: requests and updates as operations of one sequencer, ordered by when they took effect
	type op struct {
		key, call, ret int64
		id             string
	}
	var ops []op
	for _, c := range calls {
		if c.Seen == 1 {
			ops = append(ops, op{c.Enter, c.Call, c.Ret, c.ID})
		}
	}
	for _, q := range reqs {
		if k, ok := reqFirst[q.ID]; ok {
			ops = append(ops, op{k, q.Call, q.Ret, q.ID})
		}
	}
	sort.Slice(ops, func(i, j int) bool { return ops[i].key < ops[j].key })
	for lo := 0; lo < len(ops); lo += 64 {
		hi := min(lo+64, len(ops))
		var po []porcupine.Operation
		for i, o := range ops[lo:hi] {
			po = append(po, porcupine.Operation{ClientId: i, Input: o.id, Call: o.call, Return: o.ret, Output: i + 1})
		}
		switch porcupine.CheckOperationsTimeout(seqModel, po, 2*time.Second) {
		case porcupine.Illegal:
			res.Violate("C19/not-serialisable", "the mixed history of requests and unsolicited updates is not a linearizable sequencer history", what)
		case porcupine.Unknown:
			res.Count("porcupine_unknown", 1)
		default:
			res.Count("porcupine_windows_ok", 1)
		}
	}
}

type c19Nop struct{}

func (c19Nop) RunPodSandbox(context.Context, *api.PodSandbox) error { return nil }

func runC19(c *ev.ChildEnv, res *ev.Result) {
	rig.QuietLogs()
	adaptation.SetPluginRequestTimeout(60 * time.Second)
	adaptation.SetPluginRegistrationTimeout(60 * time.Second)
	g := rand.New(rand.NewPCG(uint64(c.Seed), uint64(c.Batch)+1900))
	if c.Batch == 0 {
		// a stub that has not been started reports that it has no service
		st, err := stub.New(c19Nop{}, stub.WithPluginName("never"), stub.WithPluginIdx("00"), stub.WithOnClose(func() {}))
		if err != nil {
			res.Note("stub.New: %v", err)
		} else {
			d := make(chan struct{})
			var uerr error
			go func() { defer close(d); _, uerr = st.UpdateContainers([]*api.ContainerUpdate{{ContainerId: "x"}}) }()
			if rig.Await(d, time.Second, 10*time.Second) == "hang" {
				res.Violate("C19/not-started-blocks", "UpdateContainers on a stub that was never started blocks", nil)
			} else if !errors.Is(uerr, stub.ErrNoService) {
				res.Violate("C19/not-started-error", fmt.Sprintf("UpdateContainers on a stub that was never started returned %v, want ErrNoService", uerr), nil)
			}
			res.Eval()
			res.Seen("never-started-stub")
		}
	}
	if c.Batch == 1%c.Batches {
		c19DuringStart(c, res)
	}
	if c.Batch == 2%c.Batches {
		c19Slow(c, res)
	}
	if c.Batch == 3%c.Batches {
		c19DroppedLaunched(c, res)
	}
	rounds := tierN(c.Tier, 12, 200) / c.Batches
	for i := 0; i < rounds; i++ {
		tag := fmt.Sprintf("c19b%dr%d", c.Batch, i)
		np, callers := 2+g.IntN(5), 1+g.IntN(8)
		dir := fmt.Sprintf("%s/r%d", c.Dir, i)
		mkdirAll(dir)
		c.WAL("round %s plugins=%d callers=%d", tag, np, callers)
		res.Eval()
		runC19Round(dir, g, np, callers, 150, 150, res, tag)
		if i == 0 {
			res.Sample(map[string]any{"round": tag, "plugins": np, "runtime_callers": callers, "updates_per_plugin": 150, "requests_per_caller": 150})
		}
	}
}

func init() {
	register(&Check{
		ID: "C19", Level: "exploration", MinNontriv: 5,
		Anchors: []string{"pkg/adaptation/plugin.go", "pkg/adaptation/adaptation.go", "pkg/stub/stub.go"},
		Rule:    "rounds with 2-6 stub plugins each issuing 150 unsolicited update lists (0-4 updates, random fields, ids that make the callback report failures or fail) from outside any handler while 1-8 runtime goroutines issue 150 lifecycle requests each; online mutual-exclusion counters in the update callback and in every lifecycle handler, offline exactly-once / argument equality / result equality over unique ids, porcupine sequencer windows over the mixed history; plus a never-started stub; plus updates issued while Start is in progress, from the Configure handler and from the Synchronize handler, a connection dropped while the update is inside the callback, and callbacks slower than the request timeout; an update after the runtime issued a state change without an event (refused); an update from the plugin that was handling a request when the runtime's caller cancelled its context; a launched probe dying during a creation while another plugin's 300 ms update waits (the callback must not start after a handler of the request and finish before the request returns); distinct = distinct (list length, failed count) shapes, callback errors",
		Assumptions: []string{
			"handlers run only inside request processing, so 'callback overlaps a handler' is exactly 'concurrent with the processing of another request'; waiting for the lock inside a caller's call window is not counted",
		},
		Plan: func(tier string) []ev.ChildSpec {
			var s []ev.ChildSpec
			for i := 0; i < 4; i++ {
				s = append(s, ev.ChildSpec{GOMAXPROCS: cpuSettings[i].GOMAXPROCS, CPUs: cpuSettings[i].CPUs})
			}
			return s
		},
		Parallel: func(string) int { return 4 },
		Run:      runC19,
	})
}

// c19DuringStart: (1) UpdateContainers while Start is still in progress (blocked in the dialer) must report
// "no service" instead of blocking; (2) an update issued from the Configure handler of a plugin that has
// registered reaches the callback exactly once and Start completes.
func c19DuringStart(c *ev.ChildEnv, res *ev.Result) {
	release := make(chan struct{})
	st, err := stub.New(c19Nop{}, stub.WithPluginName("starting"), stub.WithPluginIdx("01"), stub.WithOnClose(func() {}),
		stub.WithDialer(func(string) (net.Conn, error) { <-release; return nil, errors.New("no runtime") }))
	if err == nil {
		sdone := make(chan struct{})
		go func() { defer close(sdone); st.Start(context.Background()) }()
		time.Sleep(20 * time.Millisecond)
		d := make(chan struct{})
		var uerr error
		go func() { defer close(d); _, uerr = st.UpdateContainers([]*api.ContainerUpdate{{ContainerId: "x"}}) }()
		if rig.Await(d, time.Second, 10*time.Second) == "hang" {
			res.Violate("C19/not-started-blocks", "UpdateContainers on a stub whose Start is still in progress blocks instead of reporting that it has no service", nil)
		} else if !errors.Is(uerr, stub.ErrNoService) {
			res.Violate("C19/not-started-error", fmt.Sprintf("UpdateContainers on a stub whose Start is still in progress returned %v, want ErrNoService", uerr), nil)
		}
		close(release)
		<-sdone
		res.Eval()
		res.Seen("stub-start-in-progress")
	}
	// update from the Configure handler
	dir := c.Dir + "/cfgupd"
	mkdirAll(dir)
	rt, err := rig.NewRuntime(dir)
	if err != nil {
		return
	}
	var got atomic.Int32
	var arg []*api.ContainerUpdate
	rt.UpdateFn = func(_ context.Context, u []*api.ContainerUpdate) ([]*api.ContainerUpdate, error) {
		got.Add(1)
		arg = cloneUpdates(u)
		return c19Expect(u)
	}
	if rt.Start() != nil {
		return
	}
	defer rt.Stop()
	sent := []*api.ContainerUpdate{{ContainerId: "cfg.c1"}, {ContainerId: "cfg.c2"}}
	sent[0].SetLinuxCPUShares(77)
	var failed []*api.ContainerUpdate
	var uerr error
	var p *rig.Plugin
	p = rig.NewPlugin("cfgupd", "20", 0, rig.Handlers{
		Configure: func(string, string, string) (api.EventMask, error) {
			failed, uerr = p.Stub.UpdateContainers(cloneUpdates(sent))
			return 0, nil
		},
	})
	d := make(chan struct{})
	var cerr error
	go func() { defer close(d); cerr = p.Connect(rt.Sock) }()
	st2 := rig.Await(d, 5*time.Second, 30*time.Second)
	res.Eval()
	if st2 == "hang" {
		res.Violate("C19/update-from-configure-deadlocks", "a plugin issuing an unsolicited update from its Configure handler never finishes Start; goroutines:\n"+nriStacks(), nil)
		return
	}
	defer p.StopStub()
	wantFailed, _ := c19Expect(sent)
	if cerr != nil || uerr != nil || got.Load() != 1 || !updatesEqual(arg, sent) || !updatesEqual(failed, wantFailed) {
		res.Violate("C19/update-from-configure", fmt.Sprintf("update issued from the Configure handler: start err=%v, update err=%v, callback invocations=%d, argument equal=%v, failed list equal=%v", cerr, uerr, got.Load(), updatesEqual(arg, sent), updatesEqual(failed, wantFailed)), nil)
	}
	res.Seen("update-from-configure")

	// a request the runtime got wrong (a state change without an event) is refused; the plugins' updates go
	// on reaching the callback afterwards
	{
		res.Eval()
		d := make(chan struct{})
		go func() {
			defer close(d)
			rt.A.StateChange(context.Background(), &api.StateChangeEvent{Pod: &api.PodSandbox{Id: "no-event"}})
		}()
		if rig.Await(d, 5*time.Second, 30*time.Second) == "hang" {
			res.Violate("C19/update-after-refused-request", "a state change without an event did not return; goroutines:\n"+nriStacks(), nil)
			return
		}
		before := got.Load()
		d2 := make(chan struct{})
		var uerr3 error
		go func() {
			defer close(d2)
			_, uerr3 = p.Stub.UpdateContainers([]*api.ContainerUpdate{{ContainerId: "after-refused.c1"}})
		}()
		if rig.Await(d2, 5*time.Second, 30*time.Second) == "hang" {
			res.Violate("C19/update-after-refused-request", "after the runtime issued a state change without an event (refused), a plugin's unsolicited update never returns; goroutines:\n"+nriStacks(), nil)
			return
		}
		if uerr3 != nil || got.Load() != before+1 {
			res.Violate("C19/update-after-refused-request", fmt.Sprintf("after a refused runtime request: update err=%v, callback invocations=%d (want 1)", uerr3, got.Load()-before), nil)
		}
		res.Seen("update-after-refused-request")
	}

	// update from the Synchronize handler: the plugin is registered, so the update reaches the callback once
	// and its result comes back, and the plugin becomes active afterwards
	got.Store(0)
	sent2 := []*api.ContainerUpdate{{ContainerId: "syn.c1"}, {ContainerId: "syn.c4"}}
	sent2[1].SetLinuxCPUShares(78)
	var failed2 []*api.ContainerUpdate
	var uerr2 error
	var events atomic.Int32
	var p2 *rig.Plugin
	p2 = rig.NewPlugin("synupd", "30", 0, rig.Handlers{
		Synchronize: func(context.Context, []*api.PodSandbox, []*api.Container) ([]*api.ContainerUpdate, error) {
			failed2, uerr2 = p2.Stub.UpdateContainers(cloneUpdates(sent2))
			return nil, nil
		},
		Any: func(api.Event, *api.PodSandbox, *api.Container) { events.Add(1) },
	})
	res.Eval()
	if err := p2.Connect(rt.Sock); err != nil {
		res.Note("synupd: connect: %v", err)
		return
	}
	defer p2.StopStub()
	if rig.Await(p2.SyncedCh(), 5*time.Second, 30*time.Second) == "hang" {
		res.Violate("C19/update-from-synchronize-deadlocks", "a plugin issuing an unsolicited update from its Synchronize handler never gets through its synchronization; goroutines:\n"+nriStacks(), nil)
		return
	}
	for i := 0; i < 50 && events.Load() == 0; i++ {
		b := rt.A.BlockPluginSync()
		rt.A.RunPodSandbox(context.Background(), &api.StateChangeEvent{Pod: &api.PodSandbox{Id: fmt.Sprintf("synupd-probe%d", i)}})
		b.Unblock()
		time.Sleep(5 * time.Millisecond)
	}
	wantFailed2, _ := c19Expect(sent2)
	if uerr2 != nil || got.Load() != 1 || !updatesEqual(arg, sent2) || !updatesEqual(failed2, wantFailed2) || events.Load() == 0 {
		res.Violate("C19/update-from-synchronize", fmt.Sprintf("update issued from the Synchronize handler: update err=%v, callback invocations=%d, argument equal=%v, failed list equal=%v, events received afterwards=%d", uerr2, got.Load(), updatesEqual(arg, sent2), updatesEqual(failed2, wantFailed2), events.Load()), nil)
	}
	res.Seen("update-from-synchronize")
}

// c19DroppedLaunched: a request during which a plugin launched by the runtime dies (dropping it means killing
// and reaping a process) while another plugin's update waits for its turn. The update callback (300 ms long)
// must not run inside the request: if the callback starts after a handler of the request ran and also
// finishes before the request returns, it ran while the request was still being processed.
func c19DroppedLaunched(c *ev.ChildEnv, res *ev.Result) {
	probe := filepath.Join(c.Dir, "probe")
	build := exec.Command("go", "build", "-tags", "verif", "-o", probe, "./cmd/probe")
	build.Dir = filepath.Join(ev.VerifDir, "harness")
	if out, err := build.CombinedOutput(); err != nil {
		res.Note("building the probe plugin failed: %v %s", err, out)
		return
	}
	for round := 0; round < 3; round++ {
		root := filepath.Join(c.Dir, fmt.Sprintf("launched%d", round))
		plugins := filepath.Join(root, "plugins")
		os.MkdirAll(plugins, 0o755)
		os.MkdirAll(filepath.Join(root, "reports"), 0o755)
		os.Link(probe, filepath.Join(plugins, "50-dielater-x"))
		rt, err := rig.NewRuntime(root, rig.WithAdaptationOptions(adaptation.WithPluginPath(plugins)))
		if err != nil {
			res.Note("runtime: %v", err)
			return
		}
		var cbStart, cbEnd, firstHandler atomic.Int64
		rt.UpdateFn = func(_ context.Context, u []*api.ContainerUpdate) ([]*api.ContainerUpdate, error) {
			cbStart.Store(rig.Tick())
			time.Sleep(300 * time.Millisecond)
			cbEnd.Store(rig.Tick())
			return nil, nil
		}
		if err := rt.Start(); err != nil {
			res.Note("start: %v", err)
			return
		}
		func() {
			defer rt.Stop()
			res.Eval()
			id := fmt.Sprintf("dropped-launched-%d", round)
			var p *rig.Plugin
			updDone := make(chan struct{})
			p = rig.NewPlugin("updater", "10", 0, rig.Handlers{
				Create: func(_ context.Context, _ *api.PodSandbox, ctr *api.Container) (*api.ContainerAdjustment, []*api.ContainerUpdate, error) {
					if ctr.GetId() == id {
						firstHandler.Store(rig.Tick())
						go func() { // waits for the adaptation lock, which this request holds
							defer close(updDone)
							p.Stub.UpdateContainers([]*api.ContainerUpdate{{ContainerId: id + "-upd"}})
						}()
						time.Sleep(60 * time.Millisecond) // the update is waiting by the time the next plugin is invoked and dies
					}
					return nil, nil, nil
				},
			})
			if err := p.Connect(rt.Sock); err != nil || !p.WaitSynced(20*time.Second) {
				res.Note("c19DroppedLaunched: updater did not register: %v", err)
				res.Inconcl()
				return
			}
			defer p.StopStub()
			rt.A.BlockPluginSync().Unblock()
			b := rt.A.BlockPluginSync()
			_, cerr := rt.A.CreateContainer(context.Background(), &api.CreateContainerRequest{Pod: &api.PodSandbox{Id: "p"}, Container: &api.Container{Id: id, PodSandboxId: "p"}})
			ret := rig.Tick()
			b.Unblock()
			if rig.Await(updDone, 5*time.Second, 30*time.Second) == "hang" {
				res.Violate("C19/hang", "an update issued during a request that dropped a launched plugin never returned; goroutines:\n"+nriStacks(), nil)
				return
			}
			fh, s0, e0 := firstHandler.Load(), cbStart.Load(), cbEnd.Load()
			if cerr != nil || fh == 0 || s0 == 0 {
				res.Note("c19DroppedLaunched: request err=%v, handler tick %d, callback tick %d", cerr, fh, s0)
				res.Inconcl()
				return
			}
			if s0 > fh && e0 < ret {
				res.Violate("C19/update-during-request", fmt.Sprintf("the update callback (300 ms) started after a plugin had been invoked for a creation request (tick %d > %d) and finished before that request returned (tick %d < %d): it ran while the request was being processed (the request dropped a launched plugin that died)", s0, fh, e0, ret), nil)
			}
			res.Seen("update-waiting-while-launched-plugin-dropped")
		}()
	}
}

// c19Slow: the callback's result reaches the plugin unchanged also when the callback (or the wait for the
// runtime to become free) takes longer than NRI's request timeout for plugins.
func c19Slow(c *ev.ChildEnv, res *ev.Result) {
	adaptation.SetPluginRequestTimeout(400 * time.Millisecond)
	defer adaptation.SetPluginRequestTimeout(60 * time.Second)
	dir := c.Dir + "/slow"
	mkdirAll(dir)
	rt, err := rig.NewRuntime(dir)
	if err != nil {
		return
	}
	var calls atomic.Int32
	rt.UpdateFn = func(_ context.Context, u []*api.ContainerUpdate) ([]*api.ContainerUpdate, error) {
		calls.Add(1)
		if len(u) > 0 && strings.Contains(u[0].ContainerId, "slowcb") {
			time.Sleep(900 * time.Millisecond)
		}
		return c19Expect(u)
	}
	if rt.Start() != nil {
		return
	}
	defer rt.Stop()
	var ps []*rig.Plugin
	for i := 0; i < 3; i++ {
		h := rig.Handlers{Event: func(_ context.Context, e api.Event, pod *api.PodSandbox, _ *api.Container) error {
			if strings.Contains(pod.GetId(), "busy") && i < 2 {
				time.Sleep(300 * time.Millisecond) // within the timeout each, beyond it together
			}
			return nil
		}}
		p := rig.NewPlugin(fmt.Sprintf("s%d", i), fmt.Sprintf("%02d", 10+i), 0, h)
		if p.Connect(rt.Sock) != nil || !p.WaitSynced(20*time.Second) {
			res.Note("c19Slow: plugin %d did not come up", i)
			return
		}
		ps = append(ps, p)
		defer p.StopStub()
	}
	updater := ps[2]
	check := func(name, id string, during func()) {
		res.Eval()
		what := map[string]any{"scenario": name, "request_timeout_ms": 400}
		sent := []*api.ContainerUpdate{{ContainerId: id + ".c1"}, {ContainerId: id + ".c4"}}
		sent[0].SetLinuxCPUShares(5)
		before := calls.Load()
		var failed []*api.ContainerUpdate
		var uerr error
		d := make(chan struct{})
		go func() { defer close(d); failed, uerr = updater.Stub.UpdateContainers(cloneUpdates(sent)) }()
		if during != nil {
			during()
		}
		if rig.Await(d, 5*time.Second, 30*time.Second) == "hang" {
			res.Violate("C19/hang", name+": UpdateContainers never returned; goroutines:\n"+nriStacks(), what)
			return
		}
		want, _ := c19Expect(sent)
		if uerr != nil || !updatesEqual(failed, want) || calls.Load()-before != 1 {
			res.Violate("C19/slow-result-lost", fmt.Sprintf("%s: the callback's result did not reach the plugin unchanged: err=%v failed=%v (want %v), callback invocations=%d", name, uerr, failed, want, calls.Load()-before), what)
			return
		}
		select {
		case <-updater.Closed:
			res.Violate("C19/slow-plugin-dropped", name+": the plugin that issued the update was disconnected", what)
			return
		default:
		}
		res.Seen("slow|" + name)
	}
	check("callback slower than the request timeout", "slowcb1", nil)
	gate := make(chan struct{})
	go func() {
		b := rt.A.BlockPluginSync()
		close(gate)
		c06Issue(rt.A, api.Event_RUN_POD_SANDBOX, "busy-1")
		b.Unblock()
	}()
	<-gate
	time.Sleep(30 * time.Millisecond) // the request is being relayed to the first two plugins
	check("runtime busy longer than the request timeout", "busywait1", nil)

	// the runtime's caller gives up on a request (its context is cancelled; no timeout is involved) while the
	// first plugin is still handling it: that plugin did nothing wrong, stays registered, and the update it
	// sends afterwards reaches the callback once with its result returned
	ctx, cancel := context.WithCancel(context.Background())
	go func() { time.Sleep(100 * time.Millisecond); cancel() }()
	b := rt.A.BlockPluginSync()
	rt.A.RunPodSandbox(ctx, &api.StateChangeEvent{Pod: &api.PodSandbox{Id: "busy-2", Name: "busy-2", Namespace: "ns"}})
	b.Unblock()
	cancel()
	time.Sleep(450 * time.Millisecond) // the handler that was interrupted has returned
	updater = ps[0]
	check("update from the plugin whose request the caller cancelled", "aftercancel1", nil)
}
