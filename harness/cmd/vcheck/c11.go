package main

// C11 — the multiplexer fails stop: no gaps after errors, and nothing hangs after close.

import (
	"errors"
	"fmt"
	"io"
	"math/rand/v2"
	"net"
	"sync"
	"sync/atomic"
	"time"

	"nriverif/internal/ev"
	"nriverif/internal/rig"

	"github.com/containerd/nri/pkg/net/multiplex"
)

const (
	c11Nominal = time.Second
	c11Hard    = 10 * time.Second
)

type c11Step struct {
	Conn uint32
	N    int
}

var (
	c11ScriptA = []c11Step{{1, 0}, {2, 5}, {1, 40}, {2, 120}, {1, 3}, {2, 0}, {1, 77}}
	c11ScriptB = []c11Step{{2, 3}, {1, 20}, {1, 0}, {2, 90}, {1, 150}, {2, 1}}
)

func c11ScriptBytes(s []c11Step) int {
	t := 0
	for _, st := range s {
		t += muxHdrLen + msgHdrLen + st.N
	}
	return t
}

// c11Reader reads one logical connection until an error, feeding the stream parser.
type c11Reader struct {
	name   string
	conn   net.Conn
	parser *streamParser
	err    error
	done   chan struct{}
	reads  atomic.Int64
}

func startReader(name string, id uint32, c net.Conn, onRead func()) *c11Reader {
	r := &c11Reader{name: name, conn: c, parser: newStreamParser(id), done: make(chan struct{})}
	go func() {
		defer close(r.done)
		buf := make([]byte, muxFrameMax)
		for {
			n, err := c.Read(buf)
			if err != nil {
				r.err = err
				return
			}
			r.reads.Add(1)
			if onRead != nil {
				onRead()
			}
			if !r.parser.feed(buf[:n]) {
				r.err = errors.New("stream damaged: " + r.parser.err)
				// keep draining so that the rest of the scenario can finish
				for {
					if _, err := c.Read(buf); err != nil {
						return
					}
				}
			}
		}
	}()
	return r
}

type c11Ctx struct {
	res  *ev.Result
	what map[string]any
}

func (x *c11Ctx) viol(sig, what string) {
	x.res.Violate(sig, what, x.what)
}

// guardClose runs a Close under the hang rule: closing must never hang.
func (x *c11Ctx) guardClose(name string, f func() error) {
	d := make(chan struct{})
	go func() { defer close(d); f() }()
	switch rig.Await(d, c11Nominal, c11Hard) {
	case "slow":
		x.res.SlowOne()
	case "hang":
		x.viol("C11/hang/close", fmt.Sprintf("%s did not return within %s; goroutines:\n%s", name, c11Hard+time.Second, nriStacks()))
	}
}

// awaitAll waits for every channel with the hang rule; returns false if something hangs.
func (x *c11Ctx) awaitAll(kind string, chans map[string]chan struct{}) bool {
	ok := true
	for name, ch := range chans {
		switch rig.Await(ch, c11Nominal, c11Hard) {
		case "slow":
			x.res.SlowOne()
		case "hang":
			ok = false
			x.viol("C11/hang/"+kind, fmt.Sprintf("%s did not return within %s after the failure/close; goroutines:\n%s", name, c11Hard+time.Second, nriStacks()))
		}
	}
	return ok
}

// laterOps checks that later reads and writes on c return errors.
func (x *c11Ctx) laterOps(name string, c net.Conn, qlen int) {
	done := make(chan struct{})
	var werr, rerr error
	go func() {
		defer close(done)
		_, werr = c.Write([]byte("later"))
		buf := make([]byte, muxFrameMax)
		for i := 0; i < qlen+3; i++ {
			if _, rerr = c.Read(buf); rerr != nil {
				break
			}
		}
	}()
	switch rig.Await(done, c11Nominal, c11Hard) {
	case "hang":
		x.viol("C11/hang/later-op", fmt.Sprintf("a Read or Write issued on %s after the failure never returned; goroutines:\n%s", name, nriStacks()))
		return
	case "slow":
		x.res.SlowOne()
	}
	if werr == nil {
		x.viol("C11/later-write-succeeds", fmt.Sprintf("Write on %s after the multiplexer failed returned no error", name))
	}
	if rerr == nil {
		x.viol("C11/later-read-succeeds", fmt.Sprintf("%d reads on %s after the multiplexer failed returned no error", qlen+3, name))
	}
}

// --- scenario A: trunk cut at byte offset k of a fixed exchange ---------------------------------

func c11Cut(x *c11Ctx, trunk, dir string, k int) {
	a, b, err := trunkPair(trunk)
	if err != nil {
		x.res.Note("trunk: %v", err)
		return
	}
	cut := rig.NewCutConn(a)
	switch dir {
	case "a-write":
		cut.ArmWrite(int64(k))
	case "a-read":
		cut.ArmRead(int64(k))
	case "a-write-transient":
		// the trunk fails once, in the middle of a write (a short write with an error), and stays open
		cut.ArmWrite(int64(k))
		cut.Transient()
	}
	ma := multiplex.Multiplex(cut)
	mb := multiplex.Multiplex(b)
	defer x.guardClose("Mux.Close (A)", ma.Close)
	defer x.guardClose("Mux.Close (B)", mb.Close)
	conns := map[string]net.Conn{}
	for _, id := range []uint32{1, 2} {
		ca, _ := ma.Open(multiplex.ConnID(id))
		cb, _ := mb.Open(multiplex.ConnID(id))
		conns[fmt.Sprintf("A%d", id)] = ca
		conns[fmt.Sprintf("B%d", id)] = cb
	}
	readers := map[string]*c11Reader{}
	for name, c := range conns {
		readers[name] = startReader(name, uint32(name[1]-'0'), c, nil)
	}
	sentA, sentB := map[uint32]int{}, map[uint32]int{}
	run := func(side string, script []c11Step, sent map[uint32]int) chan struct{} {
		done := make(chan struct{})
		go func() {
			defer close(done)
			seq := map[uint32]uint32{}
			for _, st := range script {
				c := conns[fmt.Sprintf("%s%d", side, st.Conn)]
				msg := buildMsg(st.Conn, 0, seq[st.Conn], st.N)
				seq[st.Conn]++
				if _, err := c.Write(msg); err != nil {
					return
				}
				sent[st.Conn]++
			}
		}()
		return done
	}
	wa := run("A", c11ScriptA, sentA)
	wb := run("B", c11ScriptB, sentB)
	if !x.awaitAll("writer-blocked", map[string]chan struct{}{"writer A": wa, "writer B": wb}) {
		return
	}
	if dir == "a-write-transient" {
		if !cut.Faulted() {
			cut.CutNow() // the offset lies at/after the end of the exchange
		} else if !x.awaitAll("read-after-failure", map[string]chan struct{}{"reader B1 (peer of the failed writer)": readers["B1"].done, "reader A1": readers["A1"].done}) {
			// nothing but the multiplexer itself closes the trunk here
			cut.CutNow()
			return
		}
	} else if !cut.WasCut() {
		// the armed offset lies at/after the end of the exchange: cut now (after all bytes)
		cut.CutNow()
	}
	chans := map[string]chan struct{}{}
	for n, r := range readers {
		chans["reader "+n] = r.done
	}
	if !x.awaitAll("read-after-failure", chans) {
		return
	}
	for n, r := range readers {
		if r.parser.err != "" {
			x.viol("C11/not-a-prefix", fmt.Sprintf("reader %s after cut %s@%d on %s: %s", n, dir, k, trunk, r.parser.err))
		}
		sent := sentB
		if n[0] == 'B' {
			sent = sentA
		}
		id := uint32(n[1] - '0')
		// a message whose Write failed may still have been delivered in full; never more than one beyond
		if got := len(r.parser.msgs); got > sent[id]+1 {
			x.viol("C11/not-a-prefix", fmt.Sprintf("reader %s received %d messages but only %d were written", n, got, sent[id]))
		}
		if r.err == nil {
			x.viol("C11/no-error", fmt.Sprintf("reader %s ended without an error", n))
		}
	}
	for n, c := range conns {
		x.laterOps(n, c, 4)
	}
}

// --- scenario B: close during concurrent traffic, concurrent closers -------------------------------

func c11CloseRace(x *c11Ctx, g *rand.Rand, trunk string, K, W, closers int, mode string, after int) {
	a, b, err := trunkPair(trunk)
	if err != nil {
		return
	}
	qlen := 64
	ma := multiplex.Multiplex(a, multiplex.WithReadQueueLength(qlen))
	mb := multiplex.Multiplex(b, multiplex.WithReadQueueLength(qlen))
	defer x.guardClose("Mux.Close (A)", ma.Close)
	defer x.guardClose("Mux.Close (B)", mb.Close)
	type lane struct {
		id   uint32
		dir  string
		w, r net.Conn
		cr   *credit
		rd   *c11Reader
	}
	var lanes []*lane
	for i := 0; i < K; i++ {
		id := uint32(i + 1)
		ca, _ := ma.Open(multiplex.ConnID(id))
		cb, _ := mb.Open(multiplex.ConnID(id))
		lanes = append(lanes, &lane{id: id, dir: "a2b", w: ca, r: cb}, &lane{id: id, dir: "b2a", w: cb, r: ca})
	}
	var frames atomic.Int64
	trigger := make(chan struct{})
	var trigOnce sync.Once
	var wdone []chan struct{}
	for _, ln := range lanes {
		ln := ln
		ln.cr = newCredit(qlen - 1)
		ln.rd = startReader(fmt.Sprintf("conn %d %s", ln.id, ln.dir), ln.id, ln.r, func() { ln.cr.release(1) })
		for w := 0; w < W; w++ {
			d := make(chan struct{})
			wdone = append(wdone, d)
			seed := g.Uint64()
			go func(w int) {
				defer close(d)
				lg := rand.New(rand.NewPCG(seed, 1))
				for seq := uint32(0); ; seq++ {
					n := []int{0, 1, 30, 500, 5000}[lg.IntN(5)]
					if !ln.cr.acquire(1) {
						return
					}
					if _, err := ln.w.Write(buildMsg(ln.id, uint16(w), seq, n)); err != nil {
						return
					}
					if frames.Add(1) >= int64(after) {
						trigOnce.Do(func() { close(trigger) })
					}
				}
			}(w)
		}
	}
	select {
	case <-trigger:
	case <-time.After(c11Hard):
		x.viol("C11/hang/traffic", "healthy traffic did not reach the trigger point; goroutines:\n"+nriStacks())
		return
	}
	// concurrent closers
	cdone := map[string]chan struct{}{}
	for i := 0; i < closers; i++ {
		d := make(chan struct{})
		cdone[fmt.Sprintf("closer %d (%s)", i, mode)] = d
		go func(i int) {
			defer close(d)
			switch mode {
			case "local-mux":
				ma.Close()
				ma.Close()
			case "remote-mux":
				mb.Close()
			case "trunk":
				a.Close()
			case "conn-then-mux":
				ln := lanes[i%len(lanes)]
				ln.w.Close()
				ln.w.Close()
				ln.r.Close()
				if i%2 == 0 {
					ma.Close()
				} else {
					mb.Close()
				}
			case "both":
				if i%2 == 0 {
					ma.Close()
				} else {
					mb.Close()
				}
			}
		}(i)
	}
	ok := x.awaitAll("closer", cdone)
	// every reader and writer must terminate
	chans := map[string]chan struct{}{}
	for _, ln := range lanes {
		chans["reader "+ln.rd.name] = ln.rd.done
	}
	if !x.awaitAll("read-after-close", chans) {
		ok = false
	}
	for _, ln := range lanes {
		ln.cr.kill()
	}
	wch := map[string]chan struct{}{}
	for i, d := range wdone {
		wch[fmt.Sprintf("writer %d", i)] = d
	}
	if !x.awaitAll("write-after-close", wch) {
		ok = false
	}
	if !ok {
		return
	}
	for _, ln := range lanes {
		if ln.rd.parser.err != "" {
			x.viol("C11/not-a-prefix", fmt.Sprintf("%s after %s close with %d closers: %s", ln.rd.name, mode, closers, ln.rd.parser.err))
		}
		x.laterOps(ln.rd.name+" (reader end)", ln.r, qlen)
		x.laterOps(ln.rd.name+" (writer end)", ln.w, qlen)
	}
}

// --- scenario C: receive queue overflow at position q+1 ----------------------------------------------

func c11Overflow(x *c11Ctx, trunk string, q, extra int) {
	a, b, err := trunkPair(trunk)
	if err != nil {
		return
	}
	ma := multiplex.Multiplex(a, multiplex.WithReadQueueLength(q))
	mb := multiplex.Multiplex(b, multiplex.WithReadQueueLength(q))
	defer x.guardClose("Mux.Close (A)", ma.Close)
	defer x.guardClose("Mux.Close (B)", mb.Close)
	ca, _ := ma.Open(3)
	cb, _ := mb.Open(3)
	ca2, _ := ma.Open(4)
	cb2, _ := mb.Open(4)
	// a bystander connection with a blocked reader on each side
	by1 := startReader("bystander A4", 4, ca2, nil)
	by2 := startReader("bystander B4", 4, cb2, nil)
	wdone := make(chan struct{})
	sent := 0
	go func() {
		defer close(wdone)
		for i := 0; i < q+extra; i++ {
			if _, err := ca.Write(buildMsg(3, 0, uint32(i), 10+i)); err != nil {
				return
			}
			sent++
		}
	}()
	if !x.awaitAll("writer-blocked", map[string]chan struct{}{"overflowing writer": wdone}) {
		return
	}
	// q+extra frames were written and nothing was read on connection 3: the receiving multiplexer must
	// detect the overflow and fail; the sender's side learns of it through the closed trunk
	switch rig.Await(by1.done, c11Nominal, c11Hard) {
	case "hang":
		x.viol("C11/overflow-not-detected", fmt.Sprintf("%d frames were sent to a connection with queue length %d that nobody reads, yet the multiplexer did not fail", sent, q))
		return
	case "slow":
		x.res.SlowOne()
	}
	// the stalled reader now wakes up
	rd := startReader("B3 (stalled reader)", 3, cb, nil)
	if !x.awaitAll("read-after-overflow", map[string]chan struct{}{"reader B3": rd.done, "bystander A4": by1.done, "bystander B4": by2.done}) {
		return
	}
	if rd.parser.err != "" {
		x.viol("C11/not-a-prefix", fmt.Sprintf("after overflow (queue %d, %d frames sent): %s", q, sent, rd.parser.err))
	}
	if n := len(rd.parser.msgs); n > q {
		x.viol("C11/overflow-not-detected", fmt.Sprintf("reader received %d messages through a queue of length %d that was never drained while they were sent", n, q))
	}
	if rd.err == nil || by1.err == nil || by2.err == nil {
		x.viol("C11/no-error", "a reader ended without error after overflow")
	}
	x.laterOps("A3", ca, q)
	x.laterOps("B3", cb, q)
	x.laterOps("A4", ca2, q)
}

// --- scenario D: orderly close at quiescence gives end-of-file -----------------------------------

func c11Orderly(x *c11Ctx, trunk string, closeSide string, n int) {
	a, b, err := trunkPair(trunk)
	if err != nil {
		return
	}
	ma := multiplex.Multiplex(a)
	mb := multiplex.Multiplex(b)
	defer x.guardClose("Mux.Close (A)", ma.Close)
	defer x.guardClose("Mux.Close (B)", mb.Close)
	ca, _ := ma.Open(9)
	cb, _ := mb.Open(9)
	var consumed atomic.Int64
	ra := startReader("A9", 9, ca, func() { consumed.Add(1) })
	rb := startReader("B9", 9, cb, func() { consumed.Add(1) })
	for i := 0; i < n; i++ {
		if _, err := ca.Write(buildMsg(9, 0, uint32(i), i*3)); err != nil {
			x.viol("C11/write-error-healthy", err.Error())
			return
		}
		if _, err := cb.Write(buildMsg(9, 0, uint32(i), i)); err != nil {
			x.viol("C11/write-error-healthy", err.Error())
			return
		}
	}
	deadline := time.Now().Add(c11Hard)
	for consumed.Load() < int64(2*n) && time.Now().Before(deadline) {
		time.Sleep(time.Millisecond)
	}
	if consumed.Load() < int64(2*n) {
		x.viol("C11/hang/traffic", "messages sent on a healthy trunk were not delivered")
		return
	}
	if closeSide == "a" {
		x.guardClose("Mux.Close (A)", ma.Close)
	} else {
		x.guardClose("Mux.Close (B)", mb.Close)
	}
	if !x.awaitAll("read-after-close", map[string]chan struct{}{"reader A9": ra.done, "reader B9": rb.done}) {
		return
	}
	for _, r := range []*c11Reader{ra, rb} {
		if !errors.Is(r.err, io.EOF) {
			x.viol("C11/orderly-close-not-eof", fmt.Sprintf("reader %s got %v after an orderly close at quiescence, want end-of-file", r.name, r.err))
		}
		if len(r.parser.msgs) != n || r.parser.partial() {
			x.viol("C11/not-a-prefix", fmt.Sprintf("reader %s: %d of %d messages before the orderly close", r.name, len(r.parser.msgs), n))
		}
	}
}

// --- scenario E: the wrapped listener ---------------------------------------------------------------

func c11Listener(x *c11Ctx, trunk string, closers int) {
	a, b, err := trunkPair(trunk)
	if err != nil {
		return
	}
	ma := multiplex.Multiplex(a)
	mb := multiplex.Multiplex(b)
	defer x.guardClose("Mux.Close (A)", ma.Close)
	defer x.guardClose("Mux.Close (B)", mb.Close)
	l, err := ma.Listen(6)
	if err != nil {
		x.viol("C11/listen-error", err.Error())
		return
	}
	peer, _ := mb.Open(6)
	var c1 net.Conn
	var e1 error
	d1 := make(chan struct{})
	go func() { defer close(d1); c1, e1 = l.Accept() }()
	if !x.awaitAll("accept", map[string]chan struct{}{"first Accept": d1}) {
		return
	}
	if e1 != nil || c1 == nil {
		x.viol("C11/accept-first", fmt.Sprintf("first Accept returned (%v, %v)", c1, e1))
		return
	}
	// the accepted connection carries data
	rd := startReader("accepted", 6, c1, nil)
	if _, err := peer.Write(buildMsg(6, 0, 0, 25)); err != nil {
		x.viol("C11/write-error-healthy", err.Error())
	}
	var c2 net.Conn
	var e2 error
	d2 := make(chan struct{})
	go func() { defer close(d2); c2, e2 = l.Accept() }()
	select {
	case <-d2:
		if e2 == nil {
			x.viol("C11/accept-twice", "second Accept returned a connection while the listener was open")
		}
	case <-time.After(30 * time.Millisecond):
	}
	cd := map[string]chan struct{}{}
	for i := 0; i < closers; i++ {
		d := make(chan struct{})
		cd[fmt.Sprintf("listener closer %d", i)] = d
		go func() { defer close(d); l.Close(); l.Close() }()
	}
	x.awaitAll("closer", cd)
	if !x.awaitAll("accept-after-close", map[string]chan struct{}{"second Accept": d2, "reader of accepted conn": rd.done}) {
		return
	}
	if e2 == nil || c2 != nil {
		x.viol("C11/accept-after-close", fmt.Sprintf("Accept after Close returned (%v, %v), want an error", c2, e2))
	}
	if len(rd.parser.msgs) != 1 {
		x.viol("C11/not-a-prefix", fmt.Sprintf("accepted connection delivered %d of 1 messages", len(rd.parser.msgs)))
	}
}

// c11ListenerRace: many goroutines close one wrapped listener at the same moment, together with its Mux,
// over and over: closing concurrently never panics (a panic ends the child and is attributed by the
// parent) or hangs, and a blocked Accept returns.
func c11ListenerRace(x *c11Ctx, rounds, closers int) {
	for r := 0; r < rounds; r++ {
		a, b := net.Pipe()
		ma := multiplex.Multiplex(a)
		l, err := ma.Listen(multiplex.ConnID(6 + r%3))
		if err != nil {
			x.viol("C11/listen-error", err.Error())
			return
		}
		acc := make(chan struct{})
		go func() {
			defer close(acc)
			l.Accept() // hands the connection out
			l.Accept() // blocks until the listener is closed
		}()
		start := make(chan struct{})
		cd := map[string]chan struct{}{"Accept": acc}
		for i := 0; i < closers; i++ {
			d := make(chan struct{})
			cd[fmt.Sprintf("listener closer %d", i)] = d
			go func(i int) {
				defer close(d)
				<-start
				if i == closers-1 && r%2 == 0 {
					ma.Close()
				}
				l.Close()
			}(i)
		}
		if r%4 == 0 {
			time.Sleep(50 * time.Microsecond) // let Accept block first
		}
		close(start)
		ok := x.awaitAll("closer", cd)
		ma.Close()
		b.Close()
		if !ok {
			return
		}
	}
	x.res.Count("listener_close_race_rounds", int64(rounds))
}

// --- scenario F: handle lifecycle: close, reopen, stale close ---------------------------------------

func c11Lifecycle(x *c11Ctx, trunk string, variant int) {
	a, b, err := trunkPair(trunk)
	if err != nil {
		return
	}
	ma := multiplex.Multiplex(a)
	mb := multiplex.Multiplex(b)
	defer x.guardClose("Mux.Close (A)", ma.Close)
	defer x.guardClose("Mux.Close (B)", mb.Close)
	peer, _ := mb.Open(5)
	old, _ := ma.Open(5)
	x.guardClose("conn.Close", old.Close)
	// a closed handle must fail
	x.laterOps("closed handle", old, 2)
	cur, _ := ma.Open(5)
	if variant&1 != 0 {
		x.guardClose("stale conn.Close", old.Close) // stale close of the earlier handle
	}
	if variant&2 != 0 {
		if l, err := ma.Listen(5); err == nil { // same id through a listener
			if c, err := l.Accept(); err == nil {
				cur = c
			}
		}
	}
	rd := startReader("reopened conn 5", 5, cur, nil)
	if _, err := peer.Write(buildMsg(5, 0, 0, 33)); err != nil {
		x.viol("C11/write-error-healthy", err.Error())
		return
	}
	deadline := time.Now().Add(3 * time.Second)
	for time.Now().Before(deadline) {
		select {
		case <-rd.done:
			deadline = time.Now()
		default:
			if rd.reads.Load() > 0 {
				deadline = time.Now()
			}
			time.Sleep(time.Millisecond)
		}
	}
	x.guardClose("Mux.Close (A)", ma.Close)
	if !x.awaitAll("read-after-close", map[string]chan struct{}{"reader of reopened connection": rd.done}) {
		return
	}
	if len(rd.parser.msgs) != 1 {
		x.viol("C11/reopened-conn-lost-frame", fmt.Sprintf("a connection id opened again after Close received %d of 1 messages sent to it before the multiplexer was closed (variant %d)", len(rd.parser.msgs), variant))
	}
}

// --- scenario G: a connection obtained after the multiplexer has failed or was closed ----------------

func c11OpenAfter(x *c11Ctx, trunk, how string) {
	a, b, err := trunkPair(trunk)
	if err != nil {
		return
	}
	ma := multiplex.Multiplex(a)
	mb := multiplex.Multiplex(b)
	defer x.guardClose("Mux.Close (A)", ma.Close)
	defer x.guardClose("Mux.Close (B)", mb.Close)
	pre, _ := mb.Open(7)
	rd := startReader("B7 (opened before)", 7, pre, nil)
	switch how {
	case "local-close":
		x.guardClose("Mux.Close (B)", mb.Close)
	case "remote-close":
		x.guardClose("Mux.Close (A)", ma.Close)
	case "trunk-cut":
		a.Close()
	}
	if !x.awaitAll("read-after-close", map[string]chan struct{}{"reader B7": rd.done}) {
		return
	}
	// the multiplexer at B is down now; connections obtained from it afterwards must fail as well
	for _, id := range []multiplex.ConnID{7, 8} {
		c, err := mb.Open(id)
		if err != nil {
			continue // refusing is fine
		}
		x.laterOps(fmt.Sprintf("connection %d opened after %s", id, how), c, 2)
	}
	if l, err := mb.Listen(9); err == nil {
		d := make(chan struct{})
		var c net.Conn
		go func() { defer close(d); c, _ = l.Accept() }()
		if rig.Await(d, c11Nominal, c11Hard) != "hang" && c != nil {
			x.laterOps("connection accepted after "+how, c, 2)
		}
		l.Close()
	}
}

func runC11(c *ev.ChildEnv, res *ev.Result) {
	rig.QuietLogs()
	g := rand.New(rand.NewPCG(uint64(c.Seed), uint64(c.Batch)+1100))
	hooks := installMuxHook(res)
	setMuxHookActive(hooks && c.Batch%2 == 1)
	ta, tb := c11ScriptBytes(c11ScriptA), c11ScriptBytes(c11ScriptB)
	res.Max("max_exchange_bytes_a2b", int64(ta))
	res.Max("max_exchange_bytes_b2a", int64(tb))
	thorough := c.Tier == "thorough"
	// boundaries of every frame of the fixed exchange
	bounds := func(script []c11Step) map[int]bool {
		m := map[int]bool{0: true}
		off := 0
		for _, st := range script {
			m[off+1], m[off+muxHdrLen-1], m[off+muxHdrLen], m[off+muxHdrLen+1] = true, true, true, true
			off += muxHdrLen + msgHdrLen + st.N
			m[off-1], m[off] = true, true
		}
		return m
	}
	type cutCase struct {
		trunk, dir string
		k          int
	}
	var cuts []cutCase
	for _, trunk := range []string{"socket", "pipe"} {
		for _, d := range []struct {
			dir   string
			total int
			b     map[int]bool
		}{{"a-write", ta, bounds(c11ScriptA)}, {"a-read", tb, bounds(c11ScriptB)}, {"a-write-transient", ta - 1, bounds(c11ScriptA)}} {
			for k := 0; k <= d.total; k++ {
				if thorough || d.b[k] || k%7 == c.Batch%7 {
					cuts = append(cuts, cutCase{trunk, d.dir, k})
				}
			}
		}
	}
	reps := tierN(c.Tier, 1, 8)
	for i, cc := range cuts {
		if i%c.Batches != c.Batch {
			continue
		}
		if res.HangCount() >= 3 {
			res.Note("stopped after repeated hangs")
			break
		}
		for r := 0; r < reps; r++ {
			c.WAL("cut %+v", cc)
			x := &c11Ctx{res: res, what: map[string]any{"scenario": "cut", "trunk": cc.trunk, "dir": cc.dir, "offset": cc.k}}
			res.Eval()
			c11Cut(x, cc.trunk, cc.dir, cc.k)
		}
		res.Seen(fmt.Sprintf("cut|%s|%s|%d", cc.trunk, cc.dir, cc.k))
	}
	res.Sample(map[string]any{"scenario": "cut", "exchange_a2b_bytes": ta, "exchange_b2a_bytes": tb, "script_a": c11ScriptA, "script_b": c11ScriptB})

	nClose := tierN(c.Tier, 40, 3000) / c.Batches
	modes := []string{"local-mux", "remote-mux", "trunk", "conn-then-mux", "both"}
	for i := 0; i < nClose; i++ {
		if res.HangCount() >= 3 {
			break
		}
		mode := modes[(i+c.Batch)%len(modes)]
		K, W, closers, after := 1+g.IntN(4), 1+g.IntN(3), []int{1, 2, 4, 8}[g.IntN(4)], g.IntN(400)
		trunk := []string{"socket", "pipe"}[g.IntN(2)]
		c.WAL("close-race mode=%s K=%d W=%d closers=%d after=%d trunk=%s", mode, K, W, closers, after, trunk)
		x := &c11Ctx{res: res, what: map[string]any{"scenario": "close-race", "mode": mode, "K": K, "W": W, "closers": closers, "after_frames": after, "trunk": trunk}}
		res.Eval()
		c11CloseRace(x, g, trunk, K, W, closers, mode, after)
		res.Seen(fmt.Sprintf("close|%s|closers%d|%s", mode, closers, trunk))
	}
	for _, trunk := range []string{"socket", "pipe"} {
		if res.HangCount() >= 6 {
			break
		}
		for q := 2; q <= 8; q++ {
			if (q+c.Batch)%c.Batches != 0 && !thorough {
				continue
			}
			for _, extra := range []int{1, 3} {
				c.WAL("overflow q=%d extra=%d trunk=%s", q, extra, trunk)
				x := &c11Ctx{res: res, what: map[string]any{"scenario": "overflow", "queue": q, "extra": extra, "trunk": trunk}}
				res.Eval()
				if trunk == "pipe" {
					continue // net.Pipe has no buffering: the writer cannot run ahead of a stalled mux reader by design
				}
				c11Overflow(x, trunk, q, extra)
				res.Seen(fmt.Sprintf("overflow|q%d|+%d", q, extra))
			}
		}
		for _, side := range []string{"a", "b"} {
			c.WAL("orderly %s %s", trunk, side)
			x := &c11Ctx{res: res, what: map[string]any{"scenario": "orderly-close", "side": side, "trunk": trunk}}
			res.Eval()
			c11Orderly(x, trunk, side, 5+g.IntN(40))
			res.Seen("orderly|" + trunk + "|" + side)
		}
		for _, closers := range []int{1, 4} {
			c.WAL("listener %s %d", trunk, closers)
			x := &c11Ctx{res: res, what: map[string]any{"scenario": "listener", "closers": closers, "trunk": trunk}}
			res.Eval()
			c11Listener(x, trunk, closers)
			res.Seen(fmt.Sprintf("listener|%s|%d", trunk, closers))
		}
		if trunk == "pipe" {
			n := tierN(c.Tier, 400, 4000)
			c.WAL("listener close race x%d", n)
			x := &c11Ctx{res: res, what: map[string]any{"scenario": "listener-close-race", "closers": 8, "rounds": n}}
			res.Eval()
			c11ListenerRace(x, n, 8)
			res.Seen("listener-close-race|8")
		}
		for _, how := range []string{"local-close", "remote-close", "trunk-cut"} {
			c.WAL("open-after %s %s", trunk, how)
			x := &c11Ctx{res: res, what: map[string]any{"scenario": "open-after-failure", "how": how, "trunk": trunk}}
			res.Eval()
			c11OpenAfter(x, trunk, how)
			res.Seen("open-after|" + trunk + "|" + how)
		}
		for v := 0; v < 4; v++ {
			c.WAL("lifecycle %s %d", trunk, v)
			x := &c11Ctx{res: res, what: map[string]any{"scenario": "handle-lifecycle", "variant": v, "trunk": trunk}}
			res.Eval()
			c11Lifecycle(x, trunk, v)
			res.Seen(fmt.Sprintf("lifecycle|%s|%d", trunk, v))
		}
	}
	res.Count("mux_hook_hits", muxHookCount())
	setMuxHookActive(false)
}

func init() {
	register(&Check{
		ID: "C11", Level: "fault_enumeration", MinNontriv: 30,
		Anchors: []string{"pkg/net/multiplex/mux.go", "pkg/net/conn.go"},
		Rule:    "fault list over two real Mux endpoints: (A) trunk cut at byte offset k of a fixed two-connection exchange in each direction (quick: every frame/header/payload boundary plus a stride of 7; thorough: every k, 8 repetitions) on socketpair and net.Pipe trunks; (B) local/remote/trunk/conn-then-mux/both-ends close by 1-8 concurrent closers at a seeded frame count during concurrent traffic; (C) receive-queue overflow at queue lengths 2-8; (D) orderly close at quiescence; (E) wrapped listener accept/close; (F) close/reopen/stale-close of a connection id; oracles: per-reader stream parser (prefix, no gap/duplicate/damage), every blocked and later Read/Write returns an error (hang rule: 10 s + 1 s with goroutine dump), end-of-file after orderly close, closers return; (A') the same exchange with one transient short write (error, trunk stays open) at each offset; (E') 400/4000 rounds of 8 simultaneous closers of one wrapped listener plus Mux.Close; (G) connections obtained after local close / remote close / trunk cut; distinct = distinct fault points/configurations exercised",
		Assumptions: []string{
			"completeness of delivery is not asserted for a close that races unread data (Read selects at random between the close signal and queued frames); the prefix property is",
			"overflow needs a buffering trunk: exercised on the unix socketpair only",
			"later reads may still return frames queued before the failure; an error is required within queue-length+3 reads",
		},
		Exhaustive: func(tier string) bool { return false },
		Plan: func(tier string) []ev.ChildSpec {
			var s []ev.ChildSpec
			for i := 0; i < 8; i++ {
				cs := cpuSettings[i%4]
				s = append(s, ev.ChildSpec{GOMAXPROCS: cs.GOMAXPROCS, CPUs: cs.CPUs})
			}
			return s
		},
		Parallel: func(string) int { return 8 },
		Run:      runC11,
	})
}
