package main

// C17 — only well-formed, timely registrations are activated, and the socket is private.

import (
	"context"
	"encoding/binary"
	"fmt"
	"math/rand/v2"
	"net"
	"os"
	"path/filepath"
	"strings"
	"sync"
	"syscall"
	"time"

	"nriverif/internal/ev"
	"nriverif/internal/rig"

	"github.com/containerd/nri/pkg/adaptation"
	"github.com/containerd/nri/pkg/api"
	"github.com/containerd/nri/pkg/net/multiplex"
)

const (
	c17RegTimeout = 800 * time.Millisecond
	c17ReqTimeout = 500 * time.Millisecond
)

type c17Peer struct {
	Name  string `json:"name"`
	Idx   string `json:"index"`
	Mask  int32  `json:"mask"`
	Stall string `json:"stall,omitempty"` // no-register | no-configure-answer | drop-after-connect | drop-after-register | drop-in-configure
}

func (p c17Peer) wellFormed() bool {
	idxOK := len(p.Idx) == 2 && p.Idx[0] >= '0' && p.Idx[0] <= '9' && p.Idx[1] >= '0' && p.Idx[1] <= '9'
	maskOK := p.Mask == 0 || (p.Mask&^c17ValidMask) == 0 // thirteen events; written down here, not taken from the code under test
	return p.Name != "" && idxOK && maskOK && p.Stall == ""
}

func (p c17Peer) subscribedRunPod() bool {
	return p.Mask == 0 || p.Mask&int32(evBit(api.Event_RUN_POD_SANDBOX)) != 0
}

var (
	c17Names   = []string{"", "a", "good-name", "with/slash", "dash-dash-dash", "ünï-côdé", strings.Repeat("n", 300), " ", "00-looks-like-index"}
	c17Indices = []string{"", "0", "9", "00", "07", "42", "99", "100", "000", "a1", "1a", "-1", "+1", " 1", "1 ", "１２", "٣٤", "0x", "\x001", "1\n", "05-", "05-x", "00-01", "99-99-", "7-7", "12 "}
)

func c17Cases(tier string, g *rand.Rand) [][]c17Peer {
	var cases [][]c17Peer
	one := func(p c17Peer) { cases = append(cases, []c17Peer{p}) }
	// names and indices, one bad (or good) plugin ahead of the good one
	for _, n := range c17Names {
		one(c17Peer{Name: n, Idx: "10", Mask: 0})
	}
	for _, i := range c17Indices {
		one(c17Peer{Name: "p", Idx: i, Mask: 0})
	}
	// masks: every single valid bit, empty, all valid, every single invalid bit, random
	for b := 0; b < 13; b++ {
		one(c17Peer{Name: "p", Idx: "20", Mask: 1 << b})
	}
	one(c17Peer{Name: "p", Idx: "20", Mask: c17ValidMask})
	for b := 13; b < 32; b++ {
		one(c17Peer{Name: "p", Idx: "20", Mask: int32(uint32(1) << b)})
		one(c17Peer{Name: "p", Idx: "20", Mask: int32(uint32(1)<<b) | 1})
	}
	one(c17Peer{Name: "p", Idx: "20", Mask: -1})
	for i := 0; i < tierN(tier, 12, 2400); i++ {
		m := int32(g.Uint32())
		if g.IntN(3) == 0 {
			m &= c17ValidMask
		}
		one(c17Peer{Name: "p", Idx: fmt.Sprintf("%02d", g.IntN(100)), Mask: m})
	}
	stalls := []string{"no-register", "no-configure-answer", "drop-after-connect", "drop-after-register", "drop-in-configure", "unread-flood-register", "no-register-empty-update", "no-register-flood-raw"}
	for _, s := range stalls {
		one(c17Peer{Name: "p", Idx: "30", Mask: 0, Stall: s})
	}
	// several bad ones ahead of the good one
	for i := 0; i < tierN(tier, 10, 1200); i++ {
		n := 2 + g.IntN(3)
		var ps []c17Peer
		silent := 0
		for j := 0; j < n; j++ {
			p := c17Peer{Name: c17Names[g.IntN(len(c17Names))], Idx: c17Indices[g.IntN(len(c17Indices))], Mask: 0}
			switch g.IntN(4) {
			case 0:
				p.Mask = int32(g.Uint32())
			case 1:
				p.Stall = stalls[g.IntN(len(stalls))]
				if strings.HasPrefix(p.Stall, "no-") || strings.HasPrefix(p.Stall, "unread-") {
					silent++
					if silent > 3 {
						p.Stall = "drop-after-connect"
					}
				}
			case 2:
				p.Name, p.Idx = "fine", fmt.Sprintf("%02d", g.IntN(100))
			}
			ps = append(ps, p)
		}
		cases = append(cases, ps)
	}
	return cases
}

type c17Run struct {
	spec c17Peer
	raw  *rig.RawPlugin
	conn net.Conn
}

func runC17Case(dir string, peers []c17Peer, tag string, res *ev.Result) {
	what := map[string]any{"case": tag, "plugins_ahead_of_the_good_one": peers}
	viol := func(sig, msg string) { res.Violate("C17/"+sig, msg, what) }
	rt, err := rig.NewRuntime(dir)
	if err != nil {
		res.Note("runtime: %v", err)
		return
	}
	rt.UpdateFn = func(_ context.Context, u []*api.ContainerUpdate) ([]*api.ContainerUpdate, error) { return u, nil }
	if err := rt.Start(); err != nil {
		res.Note("start: %v", err)
		return
	}
	var runs []*c17Run
	var good *rig.Plugin
	defer func() {
		d := make(chan struct{})
		go func() {
			defer close(d)
			for _, r := range runs {
				if r.raw != nil {
					r.raw.Close()
				} else if r.conn != nil {
					r.conn.Close()
				}
			}
			if good != nil {
				good.StopStub()
			}
			rt.Stop()
		}()
		select {
		case <-d:
		case <-time.After(5 * time.Second):
		}
	}()
	var wg sync.WaitGroup
	for _, spec := range peers {
		r := &c17Run{spec: spec}
		runs = append(runs, r)
		switch spec.Stall {
		case "no-register", "drop-after-connect":
			c, err := net.Dial("unix", rt.Sock)
			if err != nil {
				res.Note("%s: dial: %v", tag, err)
				return
			}
			r.conn = c
			if spec.Stall == "drop-after-connect" {
				c.Close()
			}
			// a silent peer still counts as "received nothing": track through a raw plugin attached but never registering
			if spec.Stall == "no-register" {
				r.raw = rig.NewRawPlugin(spec.Name, spec.Idx, spec.Mask)
				r.raw.Attach(c)
			}
		case "no-register-empty-update":
			// never registers, but sends one unsolicited update with an empty list
			rp := rig.NewRawPlugin(spec.Name, spec.Idx, spec.Mask)
			r.raw = rp
			if err := rp.Dial(rt.Sock, nil); err != nil {
				res.Note("%s: dial: %v", tag, err)
				return
			}
			wg.Add(1)
			go func() {
				defer wg.Done()
				ctx, cancel := context.WithTimeout(context.Background(), 3*time.Second)
				defer cancel()
				rp.Runtime.UpdateContainers(ctx, &api.UpdateContainersRequest{})
			}()
		case "no-register-flood-raw":
			// never registers, stops reading, and writes thousands of protocol-violating request frames onto the
			// runtime-service connection: the error replies pile up until NRI's receive queue for it overflows
			rp := rig.NewRawPlugin(spec.Name, spec.Idx, spec.Mask)
			r.raw = rp
			var cut *rig.CutConn
			if err := rp.Dial(rt.Sock, func(c net.Conn) net.Conn { cut = rig.NewCutConn(c); return cut }); err != nil {
				res.Note("%s: dial: %v", tag, err)
				return
			}
			cut.StallReads()
			if c, err := rp.Mux.Open(multiplex.RuntimeServiceConn); err == nil {
				go func() {
					fr := make([]byte, 10)
					for i := 0; i < 20000; i++ {
						binary.BigEndian.PutUint32(fr[0:], 0)
						binary.BigEndian.PutUint32(fr[4:], uint32(2*i+2))
						fr[8] = 1
						if _, err := c.Write(fr); err != nil {
							return
						}
					}
				}()
			}
			time.Sleep(200 * time.Millisecond)
		case "unread-flood-register":
			// the peer stops reading its socket, fills it with large replies to its own update requests, and
			// only then registers: the runtime cannot even send its configuration request
			rp := rig.NewRawPlugin(spec.Name, spec.Idx, spec.Mask)
			r.raw = rp
			var cut *rig.CutConn
			if err := rp.Dial(rt.Sock, func(c net.Conn) net.Conn { cut = rig.NewCutConn(c); return cut }); err != nil {
				res.Note("%s: dial: %v", tag, err)
				return
			}
			cut.StallReads()
			for k := 0; k < 10; k++ {
				go func(k int) {
					ctx, cancel := context.WithTimeout(context.Background(), 3*time.Second)
					defer cancel()
					u := &api.ContainerUpdate{ContainerId: fmt.Sprintf("%s-flood%d", tag, k)}
					u.AddLinuxUnified("pad", strings.Repeat("f", 300<<10))
					rp.Runtime.UpdateContainers(ctx, &api.UpdateContainersRequest{Update: []*api.ContainerUpdate{u}})
				}(k)
			}
			time.Sleep(350 * time.Millisecond) // the echoed replies have filled the socket by now
			wg.Add(1)
			go func() {
				defer wg.Done()
				rp.Register(3 * time.Second)
			}()
		default:
			rp := rig.NewRawPlugin(spec.Name, spec.Idx, spec.Mask)
			r.raw = rp
			switch spec.Stall {
			case "no-configure-answer":
				rp.OnConfigure = func(ctx context.Context, _ *api.ConfigureRequest) (*api.ConfigureResponse, error) {
					select {
					case <-rp.Closed:
					case <-time.After(10 * time.Second):
					}
					return nil, fmt.Errorf("too late")
				}
			case "drop-in-configure":
				rp.OnConfigure = func(ctx context.Context, _ *api.ConfigureRequest) (*api.ConfigureResponse, error) {
					rp.Conn.Close()
					return nil, fmt.Errorf("gone")
				}
			}
			if err := rp.Dial(rt.Sock, nil); err != nil {
				res.Note("%s: dial: %v", tag, err)
				return
			}
			wg.Add(1)
			go func() {
				defer wg.Done()
				rp.Register(6 * time.Second)
				if spec.Stall == "drop-after-register" {
					rp.Conn.Close()
				}
			}()
		}
		// keep the arrival order: bad ones ahead of the good one
		time.Sleep(3 * time.Millisecond)
	}
	// the good plugin, built on the real stub
	var goodEvents sync.Map
	good = rig.NewPlugin("good", "50", 0, rig.Handlers{Any: func(e api.Event, pod *api.PodSandbox, _ *api.Container) { goodEvents.Store(pod.GetId(), true) }})
	silent := 0
	for _, p := range peers {
		if strings.HasPrefix(p.Stall, "no-") || strings.HasPrefix(p.Stall, "unread-") {
			silent++
		}
	}
	nominal := time.Duration(silent)*(c17RegTimeout+c17ReqTimeout) + 2*time.Second
	var cerr error
	d := make(chan struct{})
	go func() { defer close(d); cerr = good.Connect(rt.Sock) }()
	switch rig.Await(d, nominal, 15*time.Second) {
	case "hang":
		viol("good-plugin-blocked", fmt.Sprintf("a well-formed plugin behind %d misbehaving ones did not get registered and configured within 16 s (bound: %s); goroutines:\n%s", len(peers), nominal, nriStacks()))
		return
	case "slow":
		res.SlowOne()
	}
	if cerr != nil {
		viol("good-plugin-rejected", fmt.Sprintf("a well-formed plugin behind %d misbehaving ones failed to start: %v", len(peers), cerr))
		return
	}
	if !good.WaitSynced(10 * time.Second) {
		viol("good-plugin-not-synchronized", "a well-formed plugin was configured but never synchronized")
		return
	}
	wg.Wait()
	// probe: one event to whoever is active
	probe := tag + "-probe"
	var perr error
	for i := 0; i < 200; i++ { // the good plugin is activated shortly after its synchronization
		pd := make(chan struct{})
		go func() {
			defer close(pd)
			b := rt.A.BlockPluginSync()
			perr = rt.A.RunPodSandbox(context.Background(), &api.StateChangeEvent{Pod: &api.PodSandbox{Id: probe}})
			b.Unblock()
		}()
		if rig.Await(pd, 5*time.Second, 15*time.Second) == "hang" {
			viol("good-plugin-blocked", fmt.Sprintf("an event relayed after %d misbehaving plugins and a well-formed one registered does not return; goroutines:\n%s", len(peers), nriStacks()))
			return
		}
		if _, ok := goodEvents.Load(probe); ok {
			break
		}
		time.Sleep(2 * time.Millisecond)
	}
	if _, ok := goodEvents.Load(probe); !ok {
		viol("good-plugin-inactive", fmt.Sprintf("a well-formed, synchronized plugin does not receive events (last error %v)", perr))
	}
	for i, r := range runs {
		if r.raw == nil {
			continue
		}
		syncs, reqs := r.raw.SyncChunks.Load(), r.raw.Requests.Load()
		desc := fmt.Sprintf("plugin #%d (name %q, index %q, mask 0x%x, stall %q)", i, r.spec.Name, r.spec.Idx, uint32(r.spec.Mask), r.spec.Stall)
		if r.spec.wellFormed() {
			if syncs == 0 {
				viol("well-formed-not-activated", desc+" is well-formed and timely but was never synchronized")
			} else if r.spec.subscribedRunPod() && reqs == 0 {
				viol("well-formed-not-activated", desc+" was synchronized but receives no events")
			} else if !r.spec.subscribedRunPod() && reqs != 0 {
				viol("unsubscribed-event", desc+" received an event it did not subscribe to")
			}
			res.Seen(fmt.Sprintf("accept|mask0x%x|idx%s", uint32(r.spec.Mask), r.spec.Idx))
			continue
		}
		why := "stall:" + r.spec.Stall
		switch {
		case r.spec.Stall != "":
		case r.spec.Name == "":
			why = "empty-name"
		case !c17Peer{Name: "x", Idx: r.spec.Idx}.wellFormed():
			why = "index"
		default:
			why = "mask"
		}
		if r.spec.Stall == "drop-after-register" {
			// registered in time with a well-formed name and index, then went away: whether its configuration and
			// synchronization were already on their way when the connection closed is a matter of timing; only
			// that it does not disturb the others is asserted (above)
			res.Seen("reject-or-accept|" + why)
			continue
		}
		if syncs > 0 || reqs > 0 {
			viol("ill-formed-activated/"+strings.SplitN(why, ":", 2)[0], fmt.Sprintf("%s must not become active, yet it received %d synchronization messages and %d events", desc, syncs, reqs))
		}
		sig := why
		if why == "index" {
			sig += "|" + r.spec.Idx
		} else if why == "mask" {
			sig += fmt.Sprintf("|0x%x", uint32(r.spec.Mask))
		}
		res.Seen("reject|" + sig)
	}
}

// c17Socket: directories NRI creates for its socket are private; disabling external connections serves no socket.
func c17Socket(base string, res *ev.Result) {
	i := 0
	for _, umask := range []int{0o000, 0o002, 0o022, 0o077} {
		for depth := 0; depth <= 3; depth++ {
			i++
			res.Eval()
			root := filepath.Join(base, fmt.Sprintf("s%d", i))
			os.MkdirAll(root, 0o755)
			os.Chmod(root, 0o755)
			dir := root
			var created []string
			for d := 0; d < depth; d++ {
				dir = filepath.Join(dir, fmt.Sprintf("d%d", d))
				created = append(created, dir)
			}
			what := map[string]any{"scenario": "socket-directory", "umask": fmt.Sprintf("%03o", umask), "missing_levels": depth}
			old := syscall.Umask(umask)
			rt, err := adaptation.New("rt", "1", func(ctx context.Context, cb adaptation.SyncCB) error { _, err := cb(ctx, nil, nil); return err },
				func(context.Context, []*api.ContainerUpdate) ([]*api.ContainerUpdate, error) { return nil, nil },
				adaptation.WithSocketPath(filepath.Join(dir, "nri.sock")), adaptation.WithPluginPath(filepath.Join(root, "none")), adaptation.WithPluginConfigPath(filepath.Join(root, "none")))
			if err == nil {
				err = rt.Start()
			}
			syscall.Umask(old)
			if err != nil {
				res.Violate("C17/socket-start-failed", fmt.Sprintf("Start failed: %v", err), what)
				continue
			}
			for _, c := range created {
				st, err := os.Stat(c)
				if err != nil {
					res.Violate("C17/socket-dir-missing", c+": "+err.Error(), what)
					continue
				}
				if st.Mode().Perm()&0o077 != 0 {
					res.Violate("C17/socket-dir-not-private", fmt.Sprintf("directory %s created by NRI has mode %04o (umask %03o): accessible to other users", strings.TrimPrefix(c, root), st.Mode().Perm(), umask), what)
				}
			}
			// the socket must accept connections
			if c, err := net.Dial("unix", filepath.Join(dir, "nri.sock")); err != nil {
				res.Violate("C17/socket-not-served", err.Error(), what)
			} else {
				c.Close()
			}
			rt.Stop()
			res.Seen(fmt.Sprintf("socketdir|umask%03o|depth%d", umask, depth))
		}
	}
	// external connections disabled, the option given after or before the socket path
	for _, order := range []string{"path-then-disable", "disable-then-path", "disable-only"} {
		res.Eval()
		root := filepath.Join(base, "disabled-"+order)
		os.MkdirAll(root, 0o755)
		sock := filepath.Join(root, "x", "nri.sock")
		opts := []adaptation.Option{adaptation.WithPluginPath(filepath.Join(root, "none")), adaptation.WithPluginConfigPath(filepath.Join(root, "none"))}
		switch order {
		case "path-then-disable":
			opts = append(opts, adaptation.WithSocketPath(sock), adaptation.WithDisabledExternalConnections())
		case "disable-then-path":
			opts = append(opts, adaptation.WithDisabledExternalConnections(), adaptation.WithSocketPath(sock))
		default:
			sock = adaptation.DefaultSocketPath
			if _, err := os.Stat(sock); err == nil {
				continue // something else serves the default path on this machine
			}
			opts = append(opts, adaptation.WithDisabledExternalConnections())
		}
		rt, err := adaptation.New("rt", "1", func(ctx context.Context, cb adaptation.SyncCB) error { _, err := cb(ctx, nil, nil); return err },
			func(context.Context, []*api.ContainerUpdate) ([]*api.ContainerUpdate, error) { return nil, nil }, opts...)
		if err == nil {
			err = rt.Start()
		}
		what := map[string]any{"scenario": "external-connections-disabled", "options": order}
		if err != nil {
			res.Violate("C17/socket-start-failed", fmt.Sprintf("Start failed: %v", err), what)
			return
		}
		if _, err := os.Stat(sock); err == nil {
			res.Violate("C17/socket-served-when-disabled", "external connections are disabled, yet the socket file exists", what)
		}
		if c, err := net.Dial("unix", sock); err == nil {
			c.Close()
			res.Violate("C17/socket-served-when-disabled", "external connections are disabled, yet a connection was accepted", what)
		}
		rt.Stop()
		res.Seen("external-connections-disabled|" + order)
	}
}

// c17Late: a peer that connects in time but registers long after the registration timeout (which is shorter
// than the request timeout here) never becomes active, and a well-formed plugin after it does.
func c17Late(base string, res *ev.Result) {
	const reg, req = 400 * time.Millisecond, 5 * time.Second
	adaptation.SetPluginRegistrationTimeout(reg)
	adaptation.SetPluginRequestTimeout(req)
	defer adaptation.SetPluginRegistrationTimeout(c17RegTimeout)
	defer adaptation.SetPluginRequestTimeout(c17ReqTimeout)
	what := map[string]any{"scenario": "late registration", "registration_timeout_ms": reg.Milliseconds(), "request_timeout_ms": req.Milliseconds(), "registers_after_ms": 4 * reg.Milliseconds()}
	res.Eval()
	os.MkdirAll(base, 0o755)
	rt, err := rig.NewRuntime(base)
	if err != nil {
		res.Note("runtime: %v", err)
		return
	}
	if err := rt.Start(); err != nil {
		res.Note("start: %v", err)
		return
	}
	defer rt.Stop()
	rp := rig.NewRawPlugin("late", "20", 0)
	if err := rp.Dial(rt.Sock, nil); err != nil {
		res.Note("late: dial: %v", err)
		return
	}
	defer rp.Close()
	time.Sleep(4 * reg)
	rp.Register(2 * time.Second) // whatever it returns
	good := rig.NewPlugin("good", "50", 0, rig.Handlers{})
	if err := good.Connect(rt.Sock); err != nil || !good.WaitSynced(10*time.Second) {
		res.Violate("C17/good-plugin-rejected", fmt.Sprintf("a well-formed plugin after a late one failed to start: %v", err), what)
		return
	}
	defer good.StopStub()
	for i := 0; i < 3; i++ {
		b := rt.A.BlockPluginSync()
		rt.A.RunPodSandbox(context.Background(), &api.StateChangeEvent{Pod: &api.PodSandbox{Id: fmt.Sprintf("late-probe%d", i)}})
		b.Unblock()
	}
	if syncs, reqs := rp.SyncChunks.Load(), rp.Requests.Load(); syncs > 0 || reqs > 0 {
		res.Violate("C17/ill-formed-activated/late", fmt.Sprintf("a plugin that registered %v after connecting (registration timeout %v) must not become active, yet it received %d synchronization messages and %d events", 4*reg, reg, syncs, reqs), what)
	}
	res.Seen("reject|late-registration")
}

func runC17(c *ev.ChildEnv, res *ev.Result) {
	rig.QuietLogs()
	adaptation.SetPluginRequestTimeout(c17ReqTimeout)
	adaptation.SetPluginRegistrationTimeout(c17RegTimeout)
	g := rand.New(rand.NewPCG(uint64(c.Seed), 1700))
	cases := c17Cases(c.Tier, g)
	if c.Batch == 0 {
		c.WAL("socket scenarios")
		c17Socket(filepath.Join(c.Dir, "sock"), res)
		c17Late(filepath.Join(c.Dir, "late"), res)
	}
	c.WAL("running registration cases")
	sem := make(chan struct{}, 8)
	var wg sync.WaitGroup
	for i, ps := range cases {
		if i%c.Batches != c.Batch {
			continue
		}
		wg.Add(1)
		sem <- struct{}{}
		go func() {
			defer wg.Done()
			defer func() { <-sem }()
			if res.HangCount() >= 3 {
				return
			}
			tag := fmt.Sprintf("c17b%dc%d", c.Batch, i)
			dir := filepath.Join(c.Dir, fmt.Sprintf("c%d", i))
			mkdirAll(dir)
			res.Eval()
			runC17Case(dir, ps, tag, res)
			if i < 2 {
				res.Sample(map[string]any{"plugins_ahead_of_the_good_one": ps})
			}
		}()
	}
	wg.Wait()
}

func init() {
	register(&Check{
		ID: "C17", Level: "fault_enumeration", MinNontriv: 40,
		Anchors: []string{"pkg/adaptation/plugin.go", "pkg/adaptation/adaptation.go", "pkg/api/plugin.go", "pkg/api/event.go"},
		Rule:    "raw protocol peers through the real socket ahead of one good stub plugin: names {empty, 1 byte, 300 bytes, unicode, with '-' and '/'}, indices {empty, 1-3 digits, letters, signs, spaces, full-width and Arabic-Indic digits, control bytes}, Configure answers {each valid bit, 0, all valid, each invalid bit 13..31 alone and with a valid bit, -1, seeded random 32-bit masks}, stall points {never registers, never answers Configure, drops after connect / after register / in Configure}, 1-4 such plugins ahead of the good one; oracle: a peer is synchronized and receives events iff name non-empty, index [0-9][0-9], timely, mask 0 or within the valid events; the good plugin is configured (bounded by silent peers x timeouts + 2 s; hang rule 15 s + 1 s), synchronized and receives the next event; socket side in its own child: umask {000,002,022,077} x 0-3 missing directory levels (every directory NRI creates has mode & 077 = 0, socket accepts), and external connections disabled (no socket file, connect fails); a peer registering 1.6 s after connecting with registration timeout 400 ms < request timeout 5 s; external connections disabled with the option before / after the socket path / alone; peers that never register but send one empty update, or flood the runtime-service connection with protocol-violating frames; distinct = distinct accept/reject reasons with their index/mask values",
		Assumptions: []string{
			"registration timeout 800 ms and request timeout 500 ms are set through NRI's public setters; at most three silent peers precede the good plugin so that the stub's own 5 s registration timeout is not the limiting factor",
		},
		Plan:     func(tier string) []ev.ChildSpec { return make([]ev.ChildSpec, tierN(tier, 4, 8)) },
		Parallel: func(string) int { return 4 },
		Run:      runC17,
	})
}

// c17ValidMask: the thirteen events of the protocol (bits 0..12).
const c17ValidMask int32 = 0x1fff
