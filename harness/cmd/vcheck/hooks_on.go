//go:build verif

package main

import (
	"runtime"
	"sync/atomic"
	"time"

	"nriverif/internal/ev"

	"github.com/containerd/nri/pkg/adaptation"
	"github.com/containerd/nri/pkg/net/multiplex"
	"github.com/containerd/nri/pkg/stub"
)

// Amplifier hooks (build tag verif): they only yield or sleep briefly at points inside NRI so that
// narrow race windows open more often. Every oracle is sound without them.

var (
	muxHookActive atomic.Bool
	muxHookHits   atomic.Int64
	muxHookCtr    atomic.Uint64
)

func perturb(n uint64) {
	switch {
	case n%97 == 0:
		time.Sleep(50 * time.Microsecond)
	case n%5 == 0:
		runtime.Gosched()
	}
}

func installMuxHook(res *ev.Result) bool {
	f := func(point string) {
		if !muxHookActive.Load() {
			return
		}
		muxHookHits.Add(1)
		perturb(muxHookCtr.Add(1))
	}
	multiplex.VerifHook.Store(&f)
	return true
}

func setMuxHookActive(on bool) { muxHookActive.Store(on) }
func muxHookCount() int64      { return muxHookHits.Load() }

// generic hook installers used by other checks
func installAdaptationHook(f func(point string)) bool {
	if f == nil {
		adaptation.VerifHook.Store(nil)
		return true
	}
	adaptation.VerifHook.Store(&f)
	return true
}

func installStubHook(f func(point string)) bool {
	if f == nil {
		stub.VerifHook.Store(nil)
		return true
	}
	stub.VerifHook.Store(&f)
	return true
}

func installRawMuxHook(f func(point string)) bool {
	if f == nil {
		multiplex.VerifHook.Store(nil)
		return true
	}
	multiplex.VerifHook.Store(&f)
	return true
}
