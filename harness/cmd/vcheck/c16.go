package main

// C16 — starting, stopping and restarting the stub terminates and leaves it usable.

import (
	"context"
	"errors"
	"fmt"
	"math/rand/v2"
	"net"
	"strings"
	"sync"
	"sync/atomic"
	"time"

	"nriverif/internal/ev"
	"nriverif/internal/rig"

	"github.com/containerd/nri/pkg/api"
	"github.com/containerd/nri/pkg/stub"
)

const (
	c16Nominal = 6 * time.Second  // default registration timeout (5 s) + slack
	c16Hard    = 15 * time.Second // three times the largest NRI timer involved
)

type c16Plugin struct {
	cfgBad   atomic.Int32
	cfgOK    atomic.Int32
	synced   atomic.Int32
	mu       sync.Mutex
	events   []string
	lastSync string
}

func (p *c16Plugin) Configure(_ context.Context, config, _, _ string) (api.EventMask, error) {
	if config == "badmask" {
		// the handler itself succeeds, but asks for an event this plugin has no handler for
		p.cfgBad.Add(1)
		return api.EventMask(1) << (api.Event_CREATE_CONTAINER - 1), nil
	}
	if config == "early" {
		// still being handled when the Start that it belongs to has already failed
		time.Sleep(150 * time.Millisecond)
	}
	p.cfgOK.Add(1)
	return 0, nil
}
func (p *c16Plugin) Synchronize(_ context.Context, pods []*api.PodSandbox, _ []*api.Container) ([]*api.ContainerUpdate, error) {
	p.synced.Add(1)
	var ids []string
	for _, x := range pods {
		ids = append(ids, x.GetId())
	}
	p.mu.Lock()
	p.lastSync = strings.Join(ids, ",")
	p.mu.Unlock()
	return nil, nil
}
func (p *c16Plugin) RunPodSandbox(_ context.Context, pod *api.PodSandbox) error {
	p.mu.Lock()
	p.events = append(p.events, pod.GetId())
	p.mu.Unlock()
	return nil
}
func (p *c16Plugin) seen(id string) int {
	p.mu.Lock()
	defer p.mu.Unlock()
	n := 0
	for _, e := range p.events {
		if e == id {
			n++
		}
	}
	return n
}

// dialSpec scripts what the next dial of the stub meets.
type dialSpec struct {
	DialErr bool   `json:"dial_error,omitempty"`
	Refuse  bool   `json:"refuse_registration,omitempty"`
	Silent  bool   `json:"never_configures,omitempty"`
	CutDir  string `json:"cut_dir,omitempty"` // "write" | "read" (from the stub's point of view)
	CutAt   int    `json:"cut_at,omitempty"`
	// PartialSync: the runtime sends one acknowledged chunk of a split synchronization, then drops the connection
	PartialSync bool `json:"partial_sync,omitempty"`
	// EarlyConfigure: the runtime sends Configure as soon as the registration arrives, then refuses the registration
	EarlyConfigure bool `json:"early_configure_then_refuse,omitempty"`
	// SplitSync: the runtime sends its state in two messages, 80 ms apart
	SplitSync bool `json:"split_sync,omitempty"`
	// BadMask: the runtime's configuration makes the plugin subscribe to an event it cannot handle
	BadMask bool `json:"bad_mask,omitempty"`
	// SlowConfigure: the runtime waits this long after the registration before it configures the plugin
	SlowConfigure time.Duration `json:"slow_configure,omitempty"`
}

type c16Session struct {
	spec  dialSpec
	cut   *rig.CutConn
	rr    *rig.RawRuntime
	ready chan struct{} // handshake finished from the runtime's point of view
	gone  chan struct{}
	err   error
	// syncPods is what this session's (complete) synchronization carried
	syncPods string
	// cfgSent: the runtime has sent its Configure request in this session
	cfgSent atomic.Bool
}

type c16Env struct {
	st       stub.Stub
	plug     *c16Plugin
	onClose  atomic.Int32
	mu       sync.Mutex
	next     dialSpec // what the next dial meets
	sessions []*c16Session
	dials    int
}

func (e *c16Env) dialCount() int { e.mu.Lock(); defer e.mu.Unlock(); return e.dials }

func (e *c16Env) dial(string) (net.Conn, error) {
	e.mu.Lock()
	spec := e.next
	e.next = dialSpec{}
	e.dials++
	e.mu.Unlock()
	if spec.DialErr {
		if e.dialCount()%2 == 0 {
			// what a dialer written as `return net.DialUnix(...)` hands back on failure: a typed nil
			var c *net.UnixConn
			return c, errors.New("scripted: runtime unreachable")
		}
		return nil, errors.New("scripted: runtime unreachable")
	}
	a, b := net.Pipe()
	cut := rig.NewCutConn(a)
	switch spec.CutDir {
	case "write":
		cut.ArmWrite(int64(spec.CutAt))
	case "read":
		cut.ArmRead(int64(spec.CutAt))
	}
	rr, err := rig.NewRawRuntime(b)
	if err != nil {
		return nil, err
	}
	s := &c16Session{spec: spec, cut: cut, rr: rr, ready: make(chan struct{}), gone: make(chan struct{})}
	e.mu.Lock()
	s.syncPods = fmt.Sprintf("fresh-%d", e.dials)
	e.mu.Unlock()
	if spec.Refuse {
		rr.OnRegister = func(*api.RegisterPluginRequest) error { return errors.New("scripted: registration refused") }
	}
	if spec.EarlyConfigure {
		rr.OnRegister = func(*api.RegisterPluginRequest) error {
			d := make(chan struct{})
			go func() {
				defer close(d)
				ctx, cancel := context.WithTimeout(context.Background(), 2*time.Second)
				defer cancel()
				rr.Plugin.Configure(ctx, &api.ConfigureRequest{Config: "early", RuntimeName: "rt", RuntimeVersion: "1", RegistrationTimeout: 800, RequestTimeout: 500})
			}()
			select { // the plugin is busy handling the configuration while the registration is refused
			case <-d:
			case <-time.After(30 * time.Millisecond):
			}
			return errors.New("scripted: registration refused after configuring")
		}
	}
	e.mu.Lock()
	e.sessions = append(e.sessions, s)
	e.mu.Unlock()
	go func() {
		defer close(s.gone)
		select {
		case <-rr.Registered:
		case <-rr.Closed:
			s.err = errors.New("closed before registration")
			return
		case <-time.After(30 * time.Second):
			s.err = errors.New("no registration")
			return
		}
		if spec.Refuse || spec.Silent || spec.EarlyConfigure {
			return
		}
		if spec.SlowConfigure > 0 {
			time.Sleep(spec.SlowConfigure)
		}
		ctx, cancel := context.WithTimeout(context.Background(), 5*time.Second)
		defer cancel()
		s.cfgSent.Store(true)
		// non-zero timeouts: the stub adopts whatever it is sent
		if spec.BadMask {
			_, err := rr.Plugin.Configure(ctx, &api.ConfigureRequest{Config: "badmask", RuntimeName: "rt", RuntimeVersion: "1", RegistrationTimeout: 800, RequestTimeout: 500})
			s.err = fmt.Errorf("configuration with an unhandled event answered: %v", err)
			rr.Close() // a runtime drops a plugin whose configuration failed
			return
		}
		if _, err := rr.Plugin.Configure(ctx, &api.ConfigureRequest{Config: "c", RuntimeName: "rt", RuntimeVersion: "1", RegistrationTimeout: 800, RequestTimeout: 500}); err != nil {
			s.err = err
			return
		}
		if spec.PartialSync {
			_, err := rr.Plugin.Synchronize(ctx, &api.SynchronizeRequest{Pods: []*api.PodSandbox{{Id: "stale-pod"}}, More: true})
			s.err = fmt.Errorf("partial sync then drop (chunk ack err=%v)", err)
			rr.Close()
			return
		}
		if spec.SplitSync {
			first, second := s.syncPods+"-a", s.syncPods+"-b"
			s.syncPods = first + "," + second
			if _, err := rr.Plugin.Synchronize(ctx, &api.SynchronizeRequest{Pods: []*api.PodSandbox{{Id: first}}, More: true}); err != nil {
				s.err = err
				return
			}
			time.Sleep(80 * time.Millisecond) // a late close notification of the previous session lands in here
			if _, err := rr.Plugin.Synchronize(ctx, &api.SynchronizeRequest{Pods: []*api.PodSandbox{{Id: second}}}); err != nil {
				s.err = err
				return
			}
			close(s.ready)
			return
		}
		if _, err := rr.Plugin.Synchronize(ctx, &api.SynchronizeRequest{Pods: []*api.PodSandbox{{Id: s.syncPods}}}); err != nil {
			s.err = err
			return
		}
		close(s.ready)
	}()
	return cut, nil
}

func (e *c16Env) last() *c16Session {
	e.mu.Lock()
	defer e.mu.Unlock()
	if len(e.sessions) == 0 {
		return nil
	}
	return e.sessions[len(e.sessions)-1]
}

func (e *c16Env) closeAll() {
	e.mu.Lock()
	ss := append([]*c16Session(nil), e.sessions...)
	e.mu.Unlock()
	for _, s := range ss {
		s.rr.Close()
	}
}

func (e *c16Env) setNext(d dialSpec) {
	e.mu.Lock()
	e.next = d
	e.mu.Unlock()
}

func newC16Env(first dialSpec) (*c16Env, error) {
	e := &c16Env{plug: &c16Plugin{}, next: first}
	st, err := stub.New(e.plug, stub.WithPluginName("c16"), stub.WithPluginIdx("16"), stub.WithDialer(e.dial),
		stub.WithSocketPath("/nonexistent/verif"), stub.WithOnClose(func() { e.onClose.Add(1) }))
	if err != nil {
		return nil, err
	}
	e.st = st
	return e, nil
}

type c16Ctx struct {
	res  *ev.Result
	what map[string]any
	bad  atomic.Bool
}

func (x *c16Ctx) viol(sig, msg string) {
	x.bad.Store(true)
	x.res.Violate("C16/"+sig, msg, x.what)
}

// timed runs f under the hang rule; returns false if it hangs.
func (x *c16Ctx) timed(name, site string, f func()) bool {
	d := make(chan struct{})
	go func() { defer close(d); f() }()
	switch rig.Await(d, c16Nominal, c16Hard) {
	case "hang":
		x.viol("hang/"+site, fmt.Sprintf("%s did not return within %s; goroutines:\n%s", name, c16Hard+time.Second, nriStacks()))
		return false
	case "slow":
		x.res.SlowOne()
	}
	return true
}

// event sends one RunPodSandbox through the session and checks that the plugin handles it exactly once.
func (x *c16Ctx) event(e *c16Env, s *c16Session, id, site string) bool {
	ctx, cancel := context.WithTimeout(context.Background(), 5*time.Second)
	defer cancel()
	_, err := s.rr.Plugin.StateChange(ctx, &api.StateChangeEvent{Event: api.Event_RUN_POD_SANDBOX, Pod: &api.PodSandbox{Id: id}})
	if err != nil || e.plug.seen(id) != 1 {
		x.viol(site, fmt.Sprintf("the started plugin did not handle event %s exactly once (err=%v, handled %d times)", id, err, e.plug.seen(id)))
		return false
	}
	return true
}

// startOK starts the stub and expects a working session.
func (x *c16Ctx) startOK(e *c16Env, site string) *c16Session {
	var err error
	if !x.timed("Start", site, func() { err = e.st.Start(context.Background()) }) {
		return nil
	}
	if err != nil {
		x.viol(site, fmt.Sprintf("Start on a fresh, healthy connection failed: %v", err))
		return nil
	}
	s := e.last()
	if !s.cfgSent.Load() {
		x.viol("start-success-unconfigured", site+": Start returned success before the runtime had sent its configuration request in this session")
		return nil
	}
	select {
	case <-s.ready:
	case <-s.gone:
		select {
		case <-s.ready: // finished normally: both channels are closed by then
			return x.syncedOK(e, s, site)
		default:
		}
		x.viol(site, fmt.Sprintf("Start returned success but the handshake did not complete on the runtime side: %v", s.err))
		return nil
	case <-time.After(c16Hard):
		x.viol(site, "Start returned success but the runtime side never finished the handshake")
		return nil
	}
	return x.syncedOK(e, s, site)
}

// syncedOK checks that the session's synchronization reached the handler exactly as sent.
func (x *c16Ctx) syncedOK(e *c16Env, s *c16Session, site string) *c16Session {
	e.plug.mu.Lock()
	got := e.plug.lastSync
	e.plug.mu.Unlock()
	if got != s.syncPods {
		x.viol("restart-stale-state", fmt.Sprintf("%s: the started plugin was synchronized with pods [%s] but the runtime sent [%s]", site, got, s.syncPods))
		return nil
	}
	return s
}

// --- scenario: drop at byte offset k of the handshake ------------------------------------------------

func c16Cut(res *ev.Result, dir string, k int, tag string) {
	x := &c16Ctx{res: res, what: map[string]any{"scenario": "handshake-cut", "direction": dir, "offset": k}}
	e, err := newC16Env(dialSpec{CutDir: dir, CutAt: k})
	if err != nil {
		res.Note("stub.New: %v", err)
		return
	}
	defer e.closeAll()
	var serr error
	if !x.timed("first Start", "start.first", func() { serr = e.st.Start(context.Background()) }) {
		return
	}
	configured := e.plug.cfgOK.Load() > 0
	if serr == nil && !configured {
		x.viol("start-success-unconfigured", "Start returned success although the plugin was never configured")
	}
	established := serr == nil
	s1 := e.last()
	if established {
		// the connection is (or will be) cut: make sure it is gone, then the session must wind down
		s1.cut.CutNow()
		if !x.timed("Wait after connection loss", "wait.after-loss", e.st.Wait) {
			return
		}
		deadline := time.Now().Add(5 * time.Second)
		for e.onClose.Load() == 0 && time.Now().Before(deadline) {
			time.Sleep(time.Millisecond)
		}
		if n := e.onClose.Load(); n != 1 {
			x.viol("onclose-count", fmt.Sprintf("the close notification of an established session fired %d times", n))
		}
	} else {
		if !x.timed("Wait after failed Start", "wait.after-failed-start", e.st.Wait) {
			return
		}
	}
	before := e.onClose.Load()
	s2 := x.startOK(e, "restart-after-"+map[bool]string{true: "loss", false: "failed-start"}[established])
	if s2 == nil {
		return
	}
	if !x.event(e, s2, tag+"-e1", "restart-not-working") {
		return
	}
	// a late notification from the earlier session must not tear the new one down
	time.Sleep(300 * time.Millisecond)
	if !x.event(e, s2, tag+"-e2", "restart-torn-down") {
		return
	}
	_ = before
	x.timed("Stop", "stop", e.st.Stop)
	x.timed("Wait after Stop", "wait.after-stop", e.st.Wait)
	res.Seen(fmt.Sprintf("cut|%s|%d|established=%v", dir, k, established))
}

// --- scenario: Stop while Start is still in its handshake -------------------------------------------

// c16StopDuringStart: Stop is called while Start waits for a slow runtime to configure the plugin. Stop
// returns; afterwards the stub is stopped: Wait returns and the runtime sees the connection go away —
// whether Start itself reported success or an error in between.
func c16StopDuringStart(res *ev.Result, after time.Duration, tag string) {
	x := &c16Ctx{res: res, what: map[string]any{"scenario": "stop-during-start", "stop_after_ms": after.Milliseconds(), "configure_after_ms": 250}}
	e, err := newC16Env(dialSpec{SlowConfigure: 250 * time.Millisecond})
	if err != nil {
		res.Note("stub.New: %v", err)
		return
	}
	defer e.closeAll()
	sdone := make(chan struct{})
	go func() { defer close(sdone); e.st.Start(context.Background()) }()
	for i := 0; i < 5000 && e.dialCount() == 0; i++ { // Start has dialled: it is inside its handshake, holding the stub
		time.Sleep(time.Millisecond)
	}
	if e.dialCount() == 0 {
		res.Note("%s: Start did not get going", tag)
		return
	}
	time.Sleep(after)
	if !x.timed("Stop during Start", "stop.during-start", e.st.Stop) {
		return
	}
	if rig.Await(sdone, c16Nominal, c16Hard) == "hang" {
		x.viol("hang/start.stopped", "Start did not return after Stop was called during its handshake; goroutines:\n"+nriStacks())
		return
	}
	if !x.timed("Wait after Stop", "wait.after-stop-during-start", e.st.Wait) {
		return
	}
	s := e.last()
	if s != nil {
		if rig.Await(s.rr.Closed, c16Nominal, c16Hard) == "hang" {
			x.viol("stop-during-start-lost", "Stop was called (and returned) while Start was in its handshake, yet the session is still up afterwards: the runtime's connection was never closed")
			return
		}
	}
	res.Seen(fmt.Sprintf("stop-during-start|%dms", after.Milliseconds()))
}

// --- scenario: histories --------------------------------------------------------------------------

func c16History(res *ev.Result, ops []string, tag string, hookDelay bool) {
	x := &c16Ctx{res: res, what: map[string]any{"scenario": "history", "ops": ops, "delayed_close_notification": hookDelay}}
	e, err := newC16Env(dialSpec{})
	if err != nil {
		res.Note("stub.New: %v", err)
		return
	}
	defer e.closeAll()
	var cur *c16Session
	established := 0
	nev := 0
	for i, op := range ops {
		site := fmt.Sprintf("%s@%d", op, i)
		switch op {
		case "start":
			if cur != nil {
				var err error
				x.timed("Start (already started)", "start.again", func() { err = e.st.Start(context.Background()) })
				if err == nil {
					x.viol("double-start-accepted", "Start on a started stub returned success")
				}
				continue
			}
			e.setNext(dialSpec{})
			cur = x.startOK(e, "start-in-history/"+prevOp(ops, i))
			if cur == nil {
				return
			}
			established++
		case "start-partial-sync":
			if cur != nil {
				continue
			}
			// Start succeeds (the plugin gets configured), then the connection is dropped in mid-synchronization
			e.setNext(dialSpec{PartialSync: true})
			var err error
			if !x.timed("Start (partial sync)", "start.partial-sync", func() { err = e.st.Start(context.Background()) }) {
				return
			}
			if err == nil {
				established++
				if !x.timed("Wait after connection loss", "wait.after-loss", e.st.Wait) {
					return
				}
			}
		case "start-slow", "start-split-sync":
			if cur != nil {
				continue
			}
			if op == "start-split-sync" {
				e.setNext(dialSpec{SplitSync: true})
			} else {
				e.setNext(dialSpec{SlowConfigure: 250 * time.Millisecond})
			}
			cur = x.startOK(e, "start-in-history/"+prevOp(ops, i))
			if cur == nil {
				return
			}
			established++
		case "start-unreachable", "start-refused", "start-silent", "start-early-configure-refused", "start-bad-mask":
			if cur != nil {
				continue
			}
			var err error
			cfgBefore := e.plug.cfgOK.Load()
			e.setNext(map[string]dialSpec{"start-unreachable": {DialErr: true}, "start-refused": {Refuse: true}, "start-silent": {Silent: true}, "start-early-configure-refused": {EarlyConfigure: true}, "start-bad-mask": {BadMask: true}}[op])
			if !x.timed("Start ("+op+")", "start."+strings.TrimPrefix(op, "start-"), func() { err = e.st.Start(context.Background()) }) {
				return
			}
			if err == nil {
				x.viol("start-success-unconfigured", "Start ("+op+") returned success although the plugin was never configured")
				return
			}
			// after "start-early-configure-refused" the configuration request of the failed session is still
			// being handled by the plugin (150 ms) while the history goes on: its result belongs to that
			// session and must not be taken for the configuration of the next one
			_ = cfgBefore
		case "stop":
			if !x.timed("Stop", "stop", e.st.Stop) {
				return
			}
			cur = nil
		case "wait":
			if cur == nil {
				if !x.timed("Wait", "wait.not-started", e.st.Wait) {
					return
				}
			}
		case "loss":
			if cur != nil {
				cur.rr.Close()
				if !x.timed("Wait after connection loss", "wait.after-loss", e.st.Wait) {
					return
				}
				cur = nil
			}
		case "event":
			if cur != nil {
				nev++
				if !x.event(e, cur, fmt.Sprintf("%s-h%d", tag, nev), "session-not-working/"+prevOp(ops, i)) {
					return
				}
			}
		case "pause":
			time.Sleep(300 * time.Millisecond)
		}
		_ = site
	}
	if cur != nil {
		x.timed("final Stop", "stop", e.st.Stop)
	}
	x.timed("final Wait", "wait.final", e.st.Wait)
	// every established session ends exactly once: let late notifications arrive
	deadline := time.Now().Add(3 * time.Second)
	for int(e.onClose.Load()) < established && time.Now().Before(deadline) {
		time.Sleep(time.Millisecond)
	}
	time.Sleep(20 * time.Millisecond)
	failedStarts := 0
	for _, op := range ops {
		if strings.HasPrefix(op, "start-") {
			failedStarts++
		}
	}
	if n := int(e.onClose.Load()); n < established || n > established+failedStarts {
		x.viol("onclose-count", fmt.Sprintf("%d established sessions ended but the close notification fired %d times", established, n))
	}
	if !x.bad.Load() {
		res.Seen("history|" + strings.Join(ops, ","))
	}
}

func prevOp(ops []string, i int) string {
	for j := i - 1; j >= 0; j-- {
		if ops[j] != "event" && ops[j] != "pause" && ops[j] != "wait" {
			return "after-" + ops[j]
		}
	}
	return "first"
}

// handshake sizes measured by a dry run
func c16Measure() (int, int, error) {
	e, err := newC16Env(dialSpec{})
	if err != nil {
		return 0, 0, err
	}
	defer e.closeAll()
	if err := e.st.Start(context.Background()); err != nil {
		return 0, 0, err
	}
	s := e.last()
	select {
	case <-s.ready:
	case <-time.After(10 * time.Second):
		return 0, 0, errors.New("dry run handshake did not complete")
	}
	w, r := int(s.cut.Written()), int(s.cut.ReadN())
	e.st.Stop()
	return w, r, nil
}

func runC16(c *ev.ChildEnv, res *ev.Result) {
	rig.QuietLogs()
	g := rand.New(rand.NewPCG(uint64(c.Seed), uint64(c.Batch)+1600))
	tw, tr, err := c16Measure()
	if err != nil {
		res.Note("dry run failed: %v", err)
		return
	}
	res.Max("max_handshake_bytes_stub_writes", int64(tw))
	res.Max("max_handshake_bytes_stub_reads", int64(tr))
	// hook: hold the old session's close notification back a little so that it arrives after a restart
	var delay atomic.Bool
	var hookHits atomic.Int64
	installStubHook(func(point string) {
		if delay.Load() && point == "connClosed.enter" {
			hookHits.Add(1)
			time.Sleep(30 * time.Millisecond)
		}
	})
	type job func()
	var jobs []job
	thorough := c.Tier == "thorough"
	n := 0
	for _, d := range []struct {
		dir   string
		total int
	}{{"write", tw}, {"read", tr}} {
		for k := 0; k <= d.total+1; k++ {
			if !(thorough || k%5 == int(c.Seed%5) || k < 2 || k >= d.total-1) {
				continue
			}
			n++
			if n%c.Batches != c.Batch {
				continue
			}
			dir, k := d.dir, k
			tag := fmt.Sprintf("c16b%d%s%d", c.Batch, dir[:1], k)
			jobs = append(jobs, func() { res.Eval(); c16Cut(res, dir, k, tag) })
		}
	}
	fixed := [][]string{
		{"start", "event", "stop", "start", "event", "pause", "event", "stop"},
		{"start", "stop", "start", "pause", "event"},
		{"start", "loss", "start", "event", "pause", "event"},
		{"start-unreachable", "start", "event"},
		{"start-refused", "wait", "start", "event", "pause", "event"},
		{"start-silent", "start", "event"},
		{"start-partial-sync", "start", "event"},
		{"start-early-configure-refused", "pause", "start-slow", "event"},
		{"start-early-configure-refused", "start-slow", "event"},
		{"start-bad-mask", "start", "event"},
		{"start", "loss", "start-split-sync", "event"},
		{"start", "loss", "start-split-sync", "event", "pause", "event"},
		{"start", "stop", "start-split-sync", "event"},
		{"start", "stop", "start-bad-mask", "wait", "start-slow", "event", "pause", "event"},
		{"start-early-configure-refused", "start-early-configure-refused", "start-slow", "event", "pause", "event"},
		{"start", "stop", "start-early-configure-refused", "start-early-configure-refused", "pause", "start-slow", "event", "pause", "event"},
		{"start", "stop", "start-partial-sync", "start-partial-sync", "start", "event", "pause", "event"},
		{"start", "start", "event", "stop", "stop", "wait"},
		{"wait", "stop", "start", "event", "loss", "wait", "start-unreachable", "start", "event"},
		{"start", "stop", "start", "stop", "start", "stop", "start", "pause", "event"},
		// waiting after a *re*start that failed (the first session left its traces in the stub)
		{"start", "stop", "start-unreachable", "wait", "start", "event"},
		{"start", "loss", "start-unreachable", "wait", "start", "event"},
		{"start", "stop", "start-refused", "wait", "start-silent", "wait", "start", "event"},
		{"start", "event", "loss", "start-bad-mask", "wait", "start-unreachable", "wait", "start", "event"},
	}
	opsPool := []string{"start", "start", "start-slow", "stop", "loss", "wait", "event", "event", "pause", "start-unreachable", "start-refused", "start-partial-sync", "start-early-configure-refused", "start-bad-mask", "start-split-sync"}
	hn := 0
	addHist := func(ops []string) {
		hn++
		if hn%c.Batches != c.Batch {
			return
		}
		tag := fmt.Sprintf("c16b%dh%d", c.Batch, hn)
		hd := hn%2 == 0
		jobs = append(jobs, func() { res.Eval(); c16History(res, ops, tag, hd) })
	}
	for rep := 0; rep < tierN(c.Tier, 2, 60); rep++ {
		for _, f := range fixed {
			addHist(f)
		}
	}
	for i := 0; i < tierN(c.Tier, 24, 20000); i++ {
		var ops []string
		for j, l := 0, 2+g.IntN(5); j < l; j++ {
			ops = append(ops, opsPool[g.IntN(len(opsPool))])
		}
		ops = append(ops, "start", "event")
		addHist(ops)
	}
	for i, after := range []time.Duration{5 * time.Millisecond, 60 * time.Millisecond, 150 * time.Millisecond, 400 * time.Millisecond} {
		if (i+c.Batch)%c.Batches == 0 || c.Tier == "thorough" {
			tag := fmt.Sprintf("c16b%dsds%d", c.Batch, i)
			jobs = append(jobs, func() { res.Eval(); c16StopDuringStart(res, after, tag) })
		}
	}
	// all cases run concurrently on separate stub instances: hanging cases cost one hard bound in total
	delay.Store(true)
	c.WAL("running %d cut/history jobs concurrently", len(jobs))
	var wg sync.WaitGroup
	sem := make(chan struct{}, 48)
	for i, j := range jobs {
		wg.Add(1)
		sem <- struct{}{}
		go func() {
			defer wg.Done()
			defer func() { <-sem }()
			_ = i
			j()
		}()
	}
	wg.Wait()
	delay.Store(false)
	res.Count("close_notification_delays", hookHits.Load())
	res.Sample(map[string]any{"scenario": "handshake-cut", "handshake_bytes_written_by_stub": tw, "handshake_bytes_read_by_stub": tr, "histories_fixed": fixed[:3]})
}

func init() {
	register(&Check{
		ID: "C16", Level: "fault_enumeration", MinNontriv: 20,
		Anchors: []string{"pkg/stub/stub.go", "pkg/net/multiplex/mux.go"},
		Rule:    "fault/history list against the real stub with a harness dialer (fresh in-memory connections behind the cut-wrapper) and a raw runtime: (A) connection dropped at byte offset k of the connect/register/configure/synchronize handshake in each direction (quick: stride 5 plus the ends; thorough: every k); (B) histories over {Start, failing Start (unreachable / refused / never configured), Stop, Wait, connection loss, event, pause} of length <= 9, fixed and seeded random, with the old session's close notification delayed by a hook in half of them; oracles: every Start/Stop/Wait returns (hang rule 15 s + 1 s with goroutine dump), Start succeeds only if configured, a later Start on a fresh connection succeeds and the plugin handles events 0 and 300 ms later, close notification fires once per established session; the failing dialer returns a typed-nil connection every other time; histories in which the Configure request of a refused session is still being handled (150 ms) while the next Start runs; histories in which the Configure handler succeeds but names an unhandled event (Start must fail); sessions sending their state in two messages 80 ms apart after a loss (delayed old notification); Stop called 5-400 ms into a Start that is configured after 250 ms; Wait after a failed *re*start (unreachable / refused / never configured / bad mask after an earlier established session was stopped or lost); distinct = fault points and histories that ran to completion",
		Assumptions: []string{
			"whether the close notification also fires for a Start attempt that never got established is not stated and not asserted (upper bound only)",
			"the first Start uses the stub's built-in 5 s registration timeout (it cannot be configured before the first configuration); later ones use the 800 ms sent by the raw runtime",
		},
		Plan: func(tier string) []ev.ChildSpec {
			var s []ev.ChildSpec
			for i := 0; i < 4; i++ {
				s = append(s, ev.ChildSpec{GOMAXPROCS: cpuSettings[i].GOMAXPROCS, CPUs: cpuSettings[i].CPUs})
			}
			return s
		},
		Parallel: func(string) int { return 4 },
		Run:      runC16,
	})
}
