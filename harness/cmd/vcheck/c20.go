package main

// C20 — sample injector plugins apply exactly what the matching annotation says.

import (
	"context"
	"encoding/json"
	"fmt"
	"math"
	"math/rand/v2"
	"os"
	"os/exec"
	"path/filepath"
	"sort"
	"strings"
	"time"

	"nriverif/internal/ev"
	"nriverif/internal/rig"

	"github.com/containerd/nri/pkg/adaptation"
	"github.com/containerd/nri/pkg/api"
	nrinet "github.com/containerd/nri/pkg/net"
)

type c20Dev struct {
	Path     string `json:"path"`
	Type     string `json:"type"`
	Major    int64  `json:"major"`
	Minor    int64  `json:"minor"`
	FileMode uint32 `json:"file_mode,omitempty"`
	UID      uint32 `json:"uid,omitempty"`
	GID      uint32 `json:"gid,omitempty"`
}

type c20Mount struct {
	Source      string   `json:"source"`
	Destination string   `json:"destination"`
	Type        string   `json:"type"`
	Options     []string `json:"options,omitempty"`
}

type c20Ulimit struct {
	Type string `json:"type"`
	Hard uint64 `json:"hard"`
	Soft uint64 `json:"soft"`
}

type c20Case struct {
	ID          string            `json:"id"`
	Container   string            `json:"container_name"`
	Annotations map[string]string `json:"pod_annotations"`
	// expectation
	Fail    bool        `json:"expect_failure"`
	Why     string      `json:"why,omitempty"`
	Devices []c20Dev    `json:"expect_devices,omitempty"`
	CDI     []string    `json:"expect_cdi,omitempty"`
	Mounts  []c20Mount  `json:"expect_mounts,omitempty"`
	Rlimits []c20Ulimit `json:"expect_rlimits,omitempty"`
	Tags    []string    `json:"tags,omitempty"`
}

func yamlList(items []map[string]any, order []string) string {
	var b strings.Builder
	for _, it := range items {
		first := true
		for _, k := range order {
			v, ok := it[k]
			if !ok {
				continue
			}
			if first {
				b.WriteString("- ")
				first = false
			} else {
				b.WriteString("  ")
			}
			switch x := v.(type) {
			case []string:
				fmt.Fprintf(&b, "%s:\n", k)
				for _, s := range x {
					fmt.Fprintf(&b, "    - %s\n", s)
				}
			case string:
				fmt.Fprintf(&b, "%s: %q\n", k, x)
			default:
				fmt.Fprintf(&b, "%s: %v\n", k, x)
			}
		}
	}
	if b.Len() == 0 {
		return "[]"
	}
	return b.String()
}

func toMaps(v any) []map[string]any {
	b, _ := json.Marshal(v)
	var raw []map[string]json.RawMessage
	json.Unmarshal(b, &raw)
	var out []map[string]any
	for _, r := range raw {
		m := map[string]any{}
		for k, x := range r {
			var s string
			var l []string
			switch {
			case json.Unmarshal(x, &s) == nil:
				m[k] = s
			case json.Unmarshal(x, &l) == nil:
				m[k] = l
			default:
				m[k] = json.Number(string(x)) // keeps 64-bit integers exact
			}
		}
		out = append(out, m)
	}
	return out
}

// encode serialises a structured list as YAML or JSON.
func c20Encode(g *rand.Rand, v any, order []string) (string, string) {
	if g.IntN(2) == 0 {
		b, _ := json.Marshal(v)
		return string(b), "json"
	}
	return yamlList(toMaps(v), order), "yaml"
}

var (
	devOrder    = []string{"path", "type", "major", "minor", "file_mode", "uid", "gid"}
	mntOrder    = []string{"source", "destination", "type", "options"}
	ulimitOrder = []string{"type", "hard", "soft"}
	rlimitNames = []string{"AS", "CORE", "CPU", "DATA", "FSIZE", "LOCKS", "MEMLOCK", "MSGQUEUE", "NICE", "NOFILE", "NPROC", "RSS", "RTPRIO", "RTTIME", "SIGPENDING", "STACK"}
)

func (g *mgen) c20Devs(tag string, n int) []c20Dev {
	var ds []c20Dev
	for i := 0; i < n; i++ {
		d := c20Dev{Path: fmt.Sprintf("/dev/%s-%d", tag, i), Type: g.pick([]string{"c", "b"}), Major: int64(g.rng.IntN(4096)), Minor: int64(g.rng.IntN(256))}
		if g.chance(0.5) {
			d.FileMode = uint32(0o600 + g.rng.IntN(0o100))
			switch g.rng.IntN(6) {
			case 0:
				d.FileMode |= 0o2000 // setgid
			case 1:
				d.FileMode |= 0o4000 | 0o1000 // setuid + sticky
			case 2:
				d.FileMode |= 0o20000 // with the character-device type bits of st_mode
			}
		}
		if g.chance(0.3) {
			d.UID = uint32(1 + g.rng.IntN(5000))
		}
		if g.chance(0.3) {
			d.GID = uint32(1 + g.rng.IntN(5000))
		}
		ds = append(ds, d)
	}
	return ds
}

func (g *mgen) c20Mounts(tag string, n int) []c20Mount {
	var ms []c20Mount
	for i := 0; i < n; i++ {
		m := c20Mount{Source: fmt.Sprintf("/src/%s/%d", tag, i), Destination: fmt.Sprintf("/mnt/%s/%d", tag, i), Type: g.pick([]string{"bind", "tmpfs"})}
		if g.chance(0.7) {
			m.Options = [][]string{{"ro"}, {"bind", "rw"}, {"nosuid", "nodev", "noexec"}}[g.rng.IntN(3)]
		}
		ms = append(ms, m)
	}
	return ms
}

func (g *mgen) c20Ulimits(n int) (raw, norm []c20Ulimit) {
	perm := g.rng.Perm(len(rlimitNames))
	for i := 0; i < n && i < len(perm); i++ {
		name := rlimitNames[perm[i]]
		soft := uint64(g.rng.IntN(1 << 20))
		hard := soft + uint64(g.rng.IntN(1<<20))
		switch g.rng.IntN(8) {
		case 0:
			hard, soft = math.MaxUint64, uint64(g.rng.IntN(1<<20)) // "unlimited" hard limit
		case 1:
			hard, soft = math.MaxUint64, math.MaxUint64
		case 2:
			hard, soft = 0, 0
		case 3:
			hard = soft
		case 4:
			hard, soft = 1<<63+uint64(g.rng.IntN(1000)), 1<<63
		}
		typ := name
		switch g.rng.IntN(4) {
		case 0:
			typ = "RLIMIT_" + name
		case 1:
			typ = strings.ToLower(name)
		case 2:
			typ = "rlimit_" + strings.ToLower(name)
		}
		raw = append(raw, c20Ulimit{Type: typ, Hard: hard, Soft: soft})
		norm = append(norm, c20Ulimit{Type: "RLIMIT_" + name, Hard: hard, Soft: soft})
	}
	return
}

const (
	devKey = "devices.nri.io"
	mntKey = "mounts.nri.io"
	cdiKey = "cdi-devices.nri.io"
	ulKey  = "ulimits.nri.containerd.io"
)

func (g *mgen) genC20(id string) *c20Case {
	names := []string{"c", "c1", "c1.x", "ctr", "ctr-2", "main"}
	cs := &c20Case{ID: id, Container: g.pick(names), Annotations: map[string]string{"unrelated.io/x": "y"}}
	tag := func(t string) { cs.Tags = append(cs.Tags, t) }
	others := func() string {
		for {
			o := g.pick(names)
			if o != cs.Container {
				return o
			}
		}
	}
	// --- device injector families: choose which scopes are present
	type fam struct {
		key   string
		apply func(scope string, empty bool) string // returns payload and records expectation if this scope is the effective one
	}
	scopes := func(key string) (present []string) {
		// scopes in precedence order: container, pod, bare
		for _, s := range []string{"container", "pod", "bare"} {
			if g.chance(0.45) {
				present = append(present, s)
			}
		}
		return
	}
	keyOf := func(key, scope string) string {
		switch scope {
		case "container":
			return key + "/container." + cs.Container
		case "pod":
			return key + "/pod"
		}
		return key
	}
	// devices
	for _, key := range []string{devKey, mntKey, cdiKey} {
		present := scopes(key)
		for i, sc := range present {
			effective := i == 0
			empty := g.chance(0.12)
			var payload, enc string
			switch key {
			case devKey:
				ds := g.c20Devs(fmt.Sprintf("%s-%s", id, sc), 1+g.rng.IntN(3))
				if empty {
					ds = nil
				}
				payload, enc = c20Encode(g.rng, ds, devOrder)
				if effective {
					cs.Devices = ds
				}
			case mntKey:
				ms := g.c20Mounts(fmt.Sprintf("%s-%s", id, sc), 1+g.rng.IntN(3))
				if empty {
					ms = nil
				}
				payload, enc = c20Encode(g.rng, ms, mntOrder)
				if effective {
					cs.Mounts = ms
				}
			case cdiKey:
				var names []string
				for j, n := 0, 1+g.rng.IntN(3); j < n; j++ {
					names = append(names, fmt.Sprintf("vendor.com/%s=%s%d", sc, id, j))
				}
				if empty {
					names = nil
				}
				b, _ := json.Marshal(names)
				payload, enc = string(b), "json"
				if g.chance(0.5) && len(names) > 0 {
					payload, enc = "- "+strings.Join(names, "\n- ")+"\n", "yaml"
				}
				if effective {
					cs.CDI = names
				}
			}
			if empty && g.chance(0.5) {
				payload = "" // present but empty value: still the effective, most specific key
			}
			cs.Annotations[keyOf(key, sc)] = payload
			if effective {
				tag(fmt.Sprintf("%s@%s/%s/empty=%v/shadowing=%d", key[:3], sc, enc, empty, len(present)-1))
			}
		}
		// annotations addressed to other containers never apply
		if g.chance(0.5) {
			o := others()
			b, _ := json.Marshal(g.c20Devs(id+"-other", 1))
			if key == cdiKey {
				b, _ = json.Marshal([]string{"vendor.com/other=" + id})
			} else if key == mntKey {
				b, _ = json.Marshal(g.c20Mounts(id+"-other", 1))
			}
			cs.Annotations[key+"/container."+o] = string(b)
			tag("other-container-key")
		}
	}
	// --- ulimits: container-scoped only
	if g.chance(0.7) {
		raw, norm := g.c20Ulimits(1 + g.rng.IntN(4))
		payload, enc := c20Encode(g.rng, raw, ulimitOrder)
		cs.Annotations[ulKey+"/container."+cs.Container] = payload
		cs.Rlimits = norm
		tag("ulimits@container/" + enc)
	}
	if g.chance(0.4) {
		// pod-scoped, bare and other-container ulimit keys are not honoured by the adjuster
		raw, _ := g.c20Ulimits(1)
		b, _ := json.Marshal(raw)
		cs.Annotations[g.pick([]string{ulKey + "/pod", ulKey, ulKey + "/container." + others()})] = string(b)
		tag("ulimits-other-scope")
	}
	// --- ill-formed payloads
	if g.chance(0.25) {
		cs.Fail = true
		which := g.rng.IntN(7)
		ckey := func(k string) string { return k + "/container." + cs.Container }
		switch which {
		case 0:
			cs.Annotations[ckey(devKey)] = `[{"path": "/dev/x", "type": "c", "major": 1`
			cs.Why = "truncated device list"
		case 1:
			cs.Annotations[ckey(devKey)] = "- path: /dev/x\n  type: c\n  major: not-a-number\n  minor: 1\n"
			cs.Why = "device major of the wrong type"
		case 2:
			cs.Annotations[ckey(mntKey)] = `{"source": "/a", "destination": "/b"}`
			cs.Why = "mounts: a mapping where a list is expected"
		case 3:
			cs.Annotations[ckey(cdiKey)] = `[{"name": "x"}]`
			cs.Why = "CDI devices: objects where strings are expected"
		case 4:
			good, _ := g.c20Ulimits(2)
			good = append(good, c20Ulimit{Type: g.pick([]string{"RLIMIT_BOGUS", "nofiles", "RLIMIT_", ""}), Hard: 10, Soft: 5})
			g.rng.Shuffle(len(good), func(i, j int) { good[i], good[j] = good[j], good[i] })
			b, _ := json.Marshal(good)
			cs.Annotations[ckey(ulKey)] = string(b)
			cs.Why = "unknown rlimit type among good ones"
		case 5:
			good, _ := g.c20Ulimits(2)
			bad := c20Ulimit{Type: "NOFILE", Hard: 4096, Soft: 4097}
			switch g.rng.IntN(3) {
			case 1:
				bad = c20Ulimit{Type: "RLIMIT_CORE", Hard: 4096, Soft: math.MaxUint64}
			case 2:
				bad = c20Ulimit{Type: "stack", Hard: 0, Soft: 1}
			}
			for i := range good {
				if strings.HasSuffix(strings.ToUpper(good[i].Type), strings.TrimPrefix(strings.ToUpper(bad.Type), "RLIMIT_")) {
					good[i].Type = "RLIMIT_LOCKS"
				}
			}
			good = append(good, bad)
			b, _ := json.Marshal(good)
			cs.Annotations[ckey(ulKey)] = string(b)
			cs.Why = fmt.Sprintf("hard limit %d below soft limit %d", bad.Hard, bad.Soft)
		case 6:
			cs.Annotations[ckey(ulKey)] = "- type: NOFILE\n  hard: [1,2]\n  soft: 1\n"
			cs.Why = "ulimit hard of the wrong type"
		}
		tag("ill-formed:" + cs.Why[:min(len(cs.Why), 24)])
	}
	sort.Strings(cs.Tags)
	return cs
}

func c20Build(dir string) error {
	for _, p := range []struct{ src, dst string }{{"device-injector", "10-device-injector"}, {"ulimit-adjuster", "20-ulimit-adjuster"}} {
		cmd := exec.Command("go", "build", "-o", filepath.Join(dir, p.dst), ".")
		cmd.Dir = filepath.Join("/repo/plugins", p.src)
		cmd.Env = append(os.Environ(), "GOFLAGS=-mod=mod", "GOPROXY=off", "GOSUMDB=off", "GOTOOLCHAIN=local")
		if out, err := cmd.CombinedOutput(); err != nil {
			return fmt.Errorf("building %s: %v\n%s", p.src, err, out)
		}
	}
	return nil
}

// c20Raw drives the ulimit adjuster alone, as a child process on a pre-connected socket, from a raw runtime:
// what the plugin itself returns is observed, not what the adaptation makes of it. That decides annotations
// which name one rlimit type twice (in any spelling): the plugin's adjustment carries exactly the described
// entries, both of them, in order.
func c20Raw(c *ev.ChildEnv, res *ev.Result, plugins string, g *mgen, n int) {
	sp, err := nrinet.NewSocketPair()
	if err != nil {
		res.Note("socketpair: %v", err)
		return
	}
	conn, err := sp.LocalConn()
	if err != nil {
		res.Note("socketpair: %v", err)
		return
	}
	rr, err := rig.NewRawRuntime(conn)
	if err != nil {
		res.Note("raw runtime: %v", err)
		return
	}
	defer rr.Close()
	cmd := exec.Command(filepath.Join(plugins, "20-ulimit-adjuster"))
	cmd.Env = []string{"NRI_PLUGIN_SOCKET=3", "NRI_PLUGIN_NAME=ulimit-adjuster", "NRI_PLUGIN_IDX=20"}
	cmd.ExtraFiles = []*os.File{sp.PeerFile()}
	if err := cmd.Start(); err != nil {
		res.Note("starting the ulimit adjuster: %v", err)
		return
	}
	sp.PeerClose()
	defer func() { cmd.Process.Kill(); cmd.Wait() }()
	select {
	case <-rr.Registered:
	case <-time.After(20 * time.Second):
		res.Note("the ulimit adjuster did not register with the raw runtime")
		res.Inconcl()
		return
	}
	ctx, cancel := context.WithTimeout(context.Background(), 120*time.Second)
	defer cancel()
	if _, err := rr.Plugin.Configure(ctx, &api.ConfigureRequest{RuntimeName: "rt", RuntimeVersion: "1", RegistrationTimeout: 10000, RequestTimeout: 10000}); err != nil {
		res.Note("configure: %v", err)
		return
	}
	if _, err := rr.Plugin.Synchronize(ctx, &api.SynchronizeRequest{}); err != nil {
		res.Note("synchronize: %v", err)
		return
	}
	for i := 0; i < n; i++ {
		id := fmt.Sprintf("raw-b%dn%d", c.Batch, i)
		raw, norm := g.c20Ulimits(2 + g.rng.IntN(3))
		// repeat one of the types, spelled differently, somewhere later in the list
		k := g.rng.IntN(len(raw))
		name := strings.TrimPrefix(norm[k].Type, "RLIMIT_")
		dup := c20Ulimit{Type: []string{name, "RLIMIT_" + name, strings.ToLower(name), "rlimit_" + strings.ToLower(name)}[g.rng.IntN(4)], Soft: uint64(g.rng.IntN(1000)), Hard: uint64(1000 + g.rng.IntN(1000))}
		at := k + 1 + g.rng.IntN(len(raw)-k)
		raw = append(raw[:at:at], append([]c20Ulimit{dup}, raw[at:]...)...)
		norm = append(norm[:at:at], append([]c20Ulimit{{Type: "RLIMIT_" + name, Soft: dup.Soft, Hard: dup.Hard}}, norm[at:]...)...)
		payload, enc := c20Encode(g.rng, raw, ulimitOrder)
		cs := &c20Case{ID: id, Container: "main", Annotations: map[string]string{ulKey + "/container.main": payload}, Rlimits: norm, Tags: []string{"raw-runtime", "repeated-rlimit-type", enc}}
		res.Eval()
		pod := &api.PodSandbox{Id: "pod-" + id, Name: "pod", Namespace: "ns", Annotations: cs.Annotations}
		rpl, err := rr.Plugin.CreateContainer(ctx, &api.CreateContainerRequest{Pod: pod, Container: &api.Container{Id: "ctr-" + id, PodSandboxId: pod.Id, Name: "main"}})
		if err != nil {
			res.Violate("C20/well-formed-rejected", fmt.Sprintf("the ulimit adjuster rejected an annotation naming one rlimit type twice: %v", err), cs)
			continue
		}
		var got []c20Ulimit
		for _, l := range rpl.GetAdjust().GetRlimits() {
			got = append(got, c20Ulimit{Type: l.Type, Hard: l.Hard, Soft: l.Soft})
		}
		x, _ := json.Marshal(got)
		y, _ := json.Marshal(norm)
		if string(x) != string(y) {
			res.Violate("C20/rlimits-differ", fmt.Sprintf("the ulimit adjuster's own adjustment carries rlimits %v, the container-scoped annotation describes %v", got, norm), cs)
		}
		res.Seen("raw|repeated-type|" + enc)
	}
}

func runC20(c *ev.ChildEnv, res *ev.Result) {
	rig.QuietLogs()
	adaptation.SetPluginRequestTimeout(10 * time.Second)
	adaptation.SetPluginRegistrationTimeout(10 * time.Second)
	plugins := filepath.Join(c.Dir, "plugins")
	os.MkdirAll(plugins, 0o755)
	if err := c20Build(plugins); err != nil {
		res.Note("%v", err)
		fmt.Fprintln(os.Stderr, err)
		return
	}
	rt, err := rig.NewRuntime(c.Dir, rig.WithAdaptationOptions(adaptation.WithPluginPath(plugins), adaptation.WithPluginConfigPath(filepath.Join(c.Dir, "conf.d"))))
	if err != nil {
		res.Note("runtime: %v", err)
		return
	}
	if err := rt.Start(); err != nil {
		res.Note("start: %v", err)
		return
	}
	defer rt.Stop()
	g := newMgen(uint64(c.Seed), uint64(c.Batch)+2000)
	c.WAL("raw-runtime cases")
	c20Raw(c, res, plugins, newMgen(uint64(c.Seed), uint64(c.Batch)+2100), tierN(c.Tier, 40, 1000))
	n := tierN(c.Tier, 1200, 240000) / c.Batches
	for i := 0; i < n; i++ {
		cs := g.genC20(fmt.Sprintf("b%dn%d", c.Batch, i))
		if i%50 == 0 {
			c.WAL("case %s", cs.ID)
		}
		res.Eval()
		pod := &api.PodSandbox{Id: "pod-" + cs.ID, Name: "pod", Namespace: "ns", Annotations: cs.Annotations}
		ctr := &api.Container{Id: "ctr-" + cs.ID, PodSandboxId: pod.Id, Name: cs.Container}
		b := rt.A.BlockPluginSync()
		rpl, err := rt.A.CreateContainer(context.Background(), &api.CreateContainerRequest{Pod: pod, Container: ctr})
		b.Unblock()
		viol := func(sig, msg string) { res.Violate("C20/"+sig, msg, cs) }
		if cs.Fail {
			if err == nil {
				viol("ill-formed-accepted", fmt.Sprintf("an ill-formed annotation (%s) did not fail the creation request; adjustment: %v", cs.Why, rpl.GetAdjust()))
			} else if rpl != nil {
				viol("partial-adjustment", "a failed request carries an adjustment")
			}
			res.Seen(strings.Join(cs.Tags, ";"))
			continue
		}
		if err != nil {
			viol("well-formed-rejected", fmt.Sprintf("well-formed annotations failed the creation request: %v", err))
			continue
		}
		a := rpl.GetAdjust()
		// devices
		var gotD []c20Dev
		for _, d := range a.GetLinux().GetDevices() {
			x := c20Dev{Path: d.Path, Type: d.Type, Major: d.Major, Minor: d.Minor}
			if d.FileMode != nil {
				x.FileMode = d.FileMode.Value
				if x.FileMode == 0 {
					x.FileMode = math.MaxUint32 // set-to-zero is not what an annotation without mode asks for
				}
			}
			if d.Uid != nil {
				x.UID = d.Uid.Value
				if x.UID == 0 {
					x.UID = math.MaxUint32
				}
			}
			if d.Gid != nil {
				x.GID = d.Gid.Value
				if x.GID == 0 {
					x.GID = math.MaxUint32
				}
			}
			gotD = append(gotD, x)
		}
		eq := func(a, b any) bool {
			x, _ := json.Marshal(a)
			y, _ := json.Marshal(b)
			return string(x) == string(y) || (len(x) <= 4 && len(y) <= 4) // null vs []
		}
		if !eq(cs.Devices, gotD) {
			viol("devices-differ", fmt.Sprintf("injected devices %v, the matching annotation describes %v", gotD, cs.Devices))
		}
		var gotC []string
		for _, d := range a.GetCDIDevices() {
			gotC = append(gotC, d.Name)
		}
		if !eq(cs.CDI, gotC) {
			viol("cdi-differ", fmt.Sprintf("injected CDI devices %v, the matching annotation describes %v", gotC, cs.CDI))
		}
		var gotM []c20Mount
		for _, m := range a.GetMounts() {
			gotM = append(gotM, c20Mount{Source: m.Source, Destination: m.Destination, Type: m.Type, Options: m.Options})
		}
		if !eq(cs.Mounts, gotM) {
			viol("mounts-differ", fmt.Sprintf("injected mounts %v, the matching annotation describes %v", gotM, cs.Mounts))
		}
		var gotR []c20Ulimit
		for _, l := range a.GetRlimits() {
			gotR = append(gotR, c20Ulimit{Type: l.Type, Hard: l.Hard, Soft: l.Soft})
		}
		if !eq(cs.Rlimits, gotR) {
			viol("rlimits-differ", fmt.Sprintf("rlimits %v, the container-scoped annotation describes %v", gotR, cs.Rlimits))
		}
		if len(a.GetAnnotations()) != 0 || len(a.GetEnv()) != 0 || len(a.GetArgs()) != 0 || a.GetHooks().Hooks() != nil {
			viol("something-else-adjusted", fmt.Sprintf("the adjustment carries something no annotation describes: %v", a))
		}
		if len(cs.Tags) > 0 {
			res.Seen(strings.Join(cs.Tags, ";"))
		}
		if i < 2 {
			res.Sample(cs)
		}
	}
}

func init() {
	register(&Check{
		ID: "C20", Level: "exploration", MinNontriv: 30,
		Anchors: []string{"plugins/device-injector/device-injector.go", "plugins/ulimit-adjuster/adjuster.go", "pkg/stub/stub.go"},
		Rule:    "the two sample plugins are built from /repo/plugins and launched as pre-installed plugins by a real Adaptation; creation requests carry generated pod annotations built from structured values: for devices / mounts / CDI devices any subset of the container-scoped, pod-scoped and bare keys (the most specific present one is effective, incl. present-but-empty values), keys addressed to other containers whose names are prefixes/extensions of this one, YAML and JSON payloads; ulimits at container scope with mixed-case optionally prefixed names and 64-bit boundary values, plus pod-scoped/bare/other-container ulimit keys that must be ignored; 25% carry one ill-formed payload (truncated, wrong types, unknown rlimit, hard < soft incl. 64-bit wrap-around values, one bad entry among good ones); oracle: well-formed => exactly the described devices (mode/uid/gid iff non-zero), CDI names, mounts and rlimits in annotation order and nothing else; ill-formed => request fails without adjustment; plus the ulimit adjuster alone on a pre-connected socket under a raw runtime with annotations naming one rlimit type twice in different spellings (its own adjustment carries both entries in order); distinct = distinct tag sets (effective scope, encoding, emptiness, shadowed keys, ill-formed kind)",
		Assumptions: []string{
			"device paths, mount destinations, rlimit types and CDI names are unique within one annotation (duplicates would be a same-plugin conflict in the adaptation, which no property defines)",
		},
		Plan:     func(tier string) []ev.ChildSpec { return make([]ev.ChildSpec, tierN(tier, 4, 8)) },
		Parallel: func(string) int { return 4 },
		Run:      runC20,
	})
}
