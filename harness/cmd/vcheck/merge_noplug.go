package main

// C05 with no plugin at all: the clauses of the property that do not depend on a plugin being registered.
// "For an update request the entry for the container being updated comes last - an empty placeholder if no
// plugin changed it" is quantified over every number of plugins, zero included: the runtime relies on the
// shape of the reply before the first plugin has connected and after the last one has left.

import (
	"fmt"
	"path/filepath"
	"time"

	"nriverif/internal/ev"
	"nriverif/internal/rig"
)

func runNoPlugins(c *ev.ChildEnv, res *ev.Result, g *mgen, mc *mergeChecker) {
	rt, err := rig.NewRuntime(filepath.Join(c.Dir, "noplug"))
	if err != nil {
		res.Note("no-plugin rig failed: %v", err)
		return
	}
	if err := rt.Start(); err != nil {
		res.Note("no-plugin rig failed to start: %v", err)
		return
	}
	m := &mergeRig{rt: rt, n: 0, warmCnt: map[string]int{}}
	defer m.close()
	phase := func(tag string, k int) {
		for i := 0; i < k; i++ {
			o := genOpts{N: 1, Kind: []string{"update", "update", "stop", "create"}[i%4], Disjoint: true, Boundary: true}
			cs := g.genCase(fmt.Sprintf("c05-b%d-noplug-%s-%d", c.Batch, tag, i), o)
			cs.Resp = nil
			cs.Tags = []string{"no-plugins/" + tag}
			c.WAL("case %s kind=%s", cs.ID, cs.Kind)
			obs := m.exec(cs)
			mc.check(cs, 0, obs)
			res.Count("no_plugin_cases/"+tag, 1)
			res.Seen("no-plugins/" + tag + "/" + cs.Kind)
		}
	}
	phase("never-any", 12)
	// a plugin comes and goes; the requests after it left run with an empty chain again
	p := rig.NewPlugin("gone", "50", 0, rig.Handlers{})
	if err := p.Connect(rt.Sock); err != nil {
		res.Note("no-plugin rig: transient plugin failed to connect: %v", err)
		return
	}
	if !p.WaitSynced(30 * time.Second) {
		res.Note("no-plugin rig: transient plugin was not synchronized")
		return
	}
	p.StopStub()
	select {
	case <-p.ClosedCh():
	case <-time.After(30 * time.Second):
	}
	phase("after-last-left", 12)
}
