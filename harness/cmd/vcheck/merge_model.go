package main

// Reference model of how plugin responses to one create/update/stop request combine.
// Written from the statements of C01–C05 only; shares no code with pkg/adaptation/result.go.

import (
	"encoding/json"
	"fmt"
	"sort"
	"strings"

	"github.com/containerd/nri/pkg/api"
)

// ---------------------------------------------------------------------------
// flattened resources

// ResFlat is a canonical, presence-aware flattening of api.LinuxResources.
type ResFlat struct {
	S    map[string]string `json:"s,omitempty"` // scalar field -> value; absent = unset
	H    map[string]uint64 `json:"h,omitempty"` // hugepage size -> limit (last wins)
	HDup []string          `json:"hdup,omitempty"`
	U    map[string]string `json:"u,omitempty"`
}

func newResFlat() ResFlat {
	return ResFlat{S: map[string]string{}, H: map[string]uint64{}, U: map[string]string{}}
}

var scalarFields = []string{
	"mem.limit", "mem.reservation", "mem.swap", "mem.kernel", "mem.kerneltcp", "mem.swappiness",
	"mem.disableoom", "mem.usehierarchy",
	"cpu.shares", "cpu.quota", "cpu.period", "cpu.rtruntime", "cpu.rtperiod", "cpu.cpus", "cpu.mems",
	"pids", "blockio", "rdt",
	"devrules", // the device cgroup rules of an update request, in order (no plugin can set them)
}

func flattenRes(r *api.LinuxResources) ResFlat {
	f := newResFlat()
	if r == nil {
		return f
	}
	if m := r.Memory; m != nil {
		if v := m.Limit; v != nil {
			f.S["mem.limit"] = fmt.Sprint(v.Value)
		}
		if v := m.Reservation; v != nil {
			f.S["mem.reservation"] = fmt.Sprint(v.Value)
		}
		if v := m.Swap; v != nil {
			f.S["mem.swap"] = fmt.Sprint(v.Value)
		}
		if v := m.Kernel; v != nil {
			f.S["mem.kernel"] = fmt.Sprint(v.Value)
		}
		if v := m.KernelTcp; v != nil {
			f.S["mem.kerneltcp"] = fmt.Sprint(v.Value)
		}
		if v := m.Swappiness; v != nil {
			f.S["mem.swappiness"] = fmt.Sprint(v.Value)
		}
		if v := m.DisableOomKiller; v != nil {
			f.S["mem.disableoom"] = fmt.Sprint(v.Value)
		}
		if v := m.UseHierarchy; v != nil {
			f.S["mem.usehierarchy"] = fmt.Sprint(v.Value)
		}
	}
	if c := r.Cpu; c != nil {
		if v := c.Shares; v != nil {
			f.S["cpu.shares"] = fmt.Sprint(v.Value)
		}
		if v := c.Quota; v != nil {
			f.S["cpu.quota"] = fmt.Sprint(v.Value)
		}
		if v := c.Period; v != nil {
			f.S["cpu.period"] = fmt.Sprint(v.Value)
		}
		if v := c.RealtimeRuntime; v != nil {
			f.S["cpu.rtruntime"] = fmt.Sprint(v.Value)
		}
		if v := c.RealtimePeriod; v != nil {
			f.S["cpu.rtperiod"] = fmt.Sprint(v.Value)
		}
		if c.Cpus != "" {
			f.S["cpu.cpus"] = c.Cpus
		}
		if c.Mems != "" {
			f.S["cpu.mems"] = c.Mems
		}
	}
	if p := r.Pids; p != nil {
		f.S["pids"] = fmt.Sprint(p.Limit)
	}
	if v := r.BlockioClass; v != nil {
		f.S["blockio"] = "=" + v.Value
	}
	if v := r.RdtClass; v != nil {
		f.S["rdt"] = "=" + v.Value
	}
	if len(r.Devices) > 0 {
		var rules []string
		for _, d := range r.Devices {
			maj, min := "*", "*"
			if d.GetMajor() != nil {
				maj = fmt.Sprint(d.GetMajor().GetValue())
			}
			if d.GetMinor() != nil {
				min = fmt.Sprint(d.GetMinor().GetValue())
			}
			rules = append(rules, fmt.Sprintf("%v %s %s:%s %s", d.GetAllow(), d.GetType(), maj, min, d.GetAccess()))
		}
		f.S["devrules"] = strings.Join(rules, "|")
	}
	for _, h := range r.HugepageLimits {
		if h == nil {
			continue
		}
		if _, ok := f.H[h.PageSize]; ok {
			f.HDup = append(f.HDup, h.PageSize)
		}
		f.H[h.PageSize] = h.Limit
	}
	for k, v := range r.Unified {
		f.U[k] = v
	}
	return f
}

func (f ResFlat) clone() ResFlat {
	o := newResFlat()
	for k, v := range f.S {
		o.S[k] = v
	}
	for k, v := range f.H {
		o.H[k] = v
	}
	for k, v := range f.U {
		o.U[k] = v
	}
	return o
}

func (f ResFlat) empty() bool { return len(f.S) == 0 && len(f.H) == 0 && len(f.U) == 0 }

// overlay applies o's fields over f.
func (f ResFlat) overlay(o ResFlat) {
	for k, v := range o.S {
		f.S[k] = v
	}
	for k, v := range o.H {
		f.H[k] = v
	}
	for k, v := range o.U {
		f.U[k] = v
	}
}

// items lists the ownership items a flattened resource set names.
func (f ResFlat) items() []string {
	var it []string
	for _, k := range scalarFields {
		if _, ok := f.S[k]; ok {
			it = append(it, k)
		}
	}
	hk := make([]string, 0, len(f.H))
	for k := range f.H {
		hk = append(hk, k)
	}
	sort.Strings(hk)
	for _, k := range hk {
		it = append(it, "hugepage:"+k)
	}
	uk := make([]string, 0, len(f.U))
	for k := range f.U {
		uk = append(uk, k)
	}
	sort.Strings(uk)
	for _, k := range uk {
		it = append(it, "unified:"+k)
	}
	return it
}

func (f ResFlat) get(item string) (string, bool) {
	switch {
	case strings.HasPrefix(item, "hugepage:"):
		v, ok := f.H[item[9:]]
		return fmt.Sprint(v), ok
	case strings.HasPrefix(item, "unified:"):
		v, ok := f.U[item[8:]]
		return v, ok
	}
	v, ok := f.S[item]
	return v, ok
}

func (f ResFlat) set(item, v string) {
	switch {
	case strings.HasPrefix(item, "hugepage:"):
		var n uint64
		fmt.Sscan(v, &n)
		f.H[item[9:]] = n
	case strings.HasPrefix(item, "unified:"):
		f.U[item[8:]] = v
	default:
		f.S[item] = v
	}
}

// diffRes describes how two flattened resource sets differ ("" = equal).
func diffRes(want, got ResFlat) string {
	var d []string
	seen := map[string]bool{}
	for _, it := range append(want.items(), got.items()...) {
		if seen[it] {
			continue
		}
		seen[it] = true
		w, wok := want.get(it)
		g, gok := got.get(it)
		switch {
		case wok && !gok:
			d = append(d, fmt.Sprintf("%s: want %s, missing", it, w))
		case !wok && gok:
			d = append(d, fmt.Sprintf("%s: unexpected %s", it, g))
		case w != g:
			d = append(d, fmt.Sprintf("%s: want %s, got %s", it, w, g))
		}
	}
	sort.Strings(d)
	return strings.Join(d, "; ")
}

// ---------------------------------------------------------------------------
// canonical container view (NRI level)

type CView struct {
	Ann     map[string]string `json:"ann"`
	Env     map[string]string `json:"env"`
	EnvDup  []string          `json:"envdup,omitempty"`
	Mounts  map[string]string `json:"mounts"`
	MntDup  []string          `json:"mntdup,omitempty"`
	Devs    map[string]string `json:"devs"`
	DevDup  []string          `json:"devdup,omitempty"`
	Args    []string          `json:"args"`
	Hooks   [6][]string       `json:"hooks"`
	Rlimits []string          `json:"rlimits"`
	Res     ResFlat           `json:"res"`
	Cgroups string            `json:"cgroups"`
	Oom     string            `json:"oom"`
}

func newCView() *CView {
	return &CView{Ann: map[string]string{}, Env: map[string]string{}, Mounts: map[string]string{},
		Devs: map[string]string{}, Res: newResFlat()}
}

func mountStr(m *api.Mount) string {
	return m.Type + "|" + m.Source + "|" + strings.Join(m.Options, ",")
}

func devStr(d *api.LinuxDevice) string {
	s := fmt.Sprintf("%s|%d|%d", d.Type, d.Major, d.Minor)
	if d.FileMode != nil {
		s += fmt.Sprintf("|mode=%o", d.FileMode.Value)
	}
	if d.Uid != nil {
		s += fmt.Sprintf("|uid=%d", d.Uid.Value)
	}
	if d.Gid != nil {
		s += fmt.Sprintf("|gid=%d", d.Gid.Value)
	}
	return s
}

func hookStr(h *api.Hook) string {
	s := h.Path + " " + strings.Join(h.Args, ",") + " " + strings.Join(h.Env, ",")
	if h.Timeout != nil {
		s += fmt.Sprintf(" t=%d", h.Timeout.Value)
	}
	return s
}

func hookLists(h *api.Hooks) [6][]*api.Hook {
	if h == nil {
		return [6][]*api.Hook{}
	}
	return [6][]*api.Hook{h.Prestart, h.CreateRuntime, h.CreateContainer, h.StartContainer, h.Poststart, h.Poststop}
}

func rlimitStr(l *api.POSIXRlimit) string { return fmt.Sprintf("%s:%d:%d", l.Type, l.Hard, l.Soft) }

func splitEnv(e string) (string, string) {
	kv := strings.SplitN(e, "=", 2)
	if len(kv) == 2 {
		return kv[0], kv[1]
	}
	return kv[0], "\x00no-equals-sign" // "X" is not "X=": only the latter sets X to the empty string
}

// viewOfContainer canonicalises what a plugin was shown.
func viewOfContainer(c *api.Container) *CView {
	v := newCView()
	if c == nil {
		return v
	}
	for k, x := range c.Annotations {
		v.Ann[k] = x
	}
	for _, e := range c.Env {
		k, x := splitEnv(e)
		if _, ok := v.Env[k]; ok {
			v.EnvDup = append(v.EnvDup, k)
		}
		v.Env[k] = x
	}
	for _, m := range c.Mounts {
		if _, ok := v.Mounts[m.Destination]; ok {
			v.MntDup = append(v.MntDup, m.Destination)
		}
		v.Mounts[m.Destination] = mountStr(m)
	}
	v.Args = append([]string(nil), c.Args...)
	for i, l := range hookLists(c.Hooks) {
		for _, h := range l {
			v.Hooks[i] = append(v.Hooks[i], hookStr(h))
		}
	}
	for _, l := range c.Rlimits {
		v.Rlimits = append(v.Rlimits, rlimitStr(l))
	}
	if l := c.Linux; l != nil {
		for _, d := range l.Devices {
			if _, ok := v.Devs[d.Path]; ok {
				v.DevDup = append(v.DevDup, d.Path)
			}
			v.Devs[d.Path] = devStr(d)
		}
		v.Res = flattenRes(l.Resources)
		v.Cgroups = l.CgroupsPath
		if l.OomScoreAdj != nil {
			v.Oom = fmt.Sprint(l.OomScoreAdj.Value)
		}
	}
	return v
}

func (v *CView) clone() *CView {
	b, _ := json.Marshal(v)
	o := newCView()
	json.Unmarshal(b, o)
	if o.Ann == nil {
		o.Ann = map[string]string{}
	}
	if o.Env == nil {
		o.Env = map[string]string{}
	}
	if o.Mounts == nil {
		o.Mounts = map[string]string{}
	}
	if o.Devs == nil {
		o.Devs = map[string]string{}
	}
	if o.Res.S == nil {
		o.Res.S = map[string]string{}
	}
	if o.Res.H == nil {
		o.Res.H = map[string]uint64{}
	}
	if o.Res.U == nil {
		o.Res.U = map[string]string{}
	}
	return o
}

func diffMap(name string, want, got map[string]string, out *[]string) {
	for k, w := range want {
		g, ok := got[k]
		if !ok {
			*out = append(*out, fmt.Sprintf("%s[%s]: want %q, missing", name, k, w))
		} else if g != w {
			*out = append(*out, fmt.Sprintf("%s[%s]: want %q, got %q", name, k, w, g))
		}
	}
	for k, g := range got {
		if _, ok := want[k]; !ok {
			*out = append(*out, fmt.Sprintf("%s[%s]: unexpected %q", name, k, g))
		}
	}
}

func diffList(name string, want, got []string, out *[]string) {
	if strings.Join(want, "\x00") != strings.Join(got, "\x00") {
		*out = append(*out, fmt.Sprintf("%s: want %q, got %q", name, want, got))
	}
}

// diffView returns the per-family differences between two views: family -> description.
func diffView(want, got *CView) map[string]string {
	fam := map[string]string{}
	add := func(f string, d []string) {
		if len(d) > 0 {
			sort.Strings(d)
			fam[f] = strings.Join(d, "; ")
		}
	}
	var d []string
	diffMap("annotation", want.Ann, got.Ann, &d)
	add("annotation", d)
	d = nil
	diffMap("env", want.Env, got.Env, &d)
	for _, k := range got.EnvDup {
		d = append(d, "env duplicate key "+k)
	}
	add("env", d)
	d = nil
	diffMap("mount", want.Mounts, got.Mounts, &d)
	for _, k := range got.MntDup {
		d = append(d, "mount duplicate destination "+k)
	}
	add("mount", d)
	d = nil
	diffMap("device", want.Devs, got.Devs, &d)
	for _, k := range got.DevDup {
		d = append(d, "device duplicate path "+k)
	}
	add("device", d)
	d = nil
	diffList("args", want.Args, got.Args, &d)
	add("args", d)
	d = nil
	for i := range want.Hooks {
		diffList(fmt.Sprintf("hooks[%d]", i), want.Hooks[i], got.Hooks[i], &d)
	}
	add("hooks", d)
	d = nil
	diffList("rlimits", want.Rlimits, got.Rlimits, &d)
	add("rlimit", d)
	if s := diffRes(want.Res, got.Res); s != "" {
		fam["resources"] = s
	}
	if want.Cgroups != got.Cgroups {
		fam["cgroupspath"] = fmt.Sprintf("want %q got %q", want.Cgroups, got.Cgroups)
	}
	if want.Oom != got.Oom {
		fam["oomscoreadj"] = fmt.Sprintf("want %q got %q", want.Oom, got.Oom)
	}
	return fam
}

// ---------------------------------------------------------------------------
// the case and its expectation

// PResp is one plugin's scripted response.
type PResp struct {
	Adjust  *api.ContainerAdjustment `json:"adjust,omitempty"`
	Updates []*api.ContainerUpdate   `json:"updates,omitempty"`
}

const (
	MustSucceed = "must-succeed"
	MustFail    = "must-fail"
	Unspecified = "unspecified"
)

// Expect is what the statements require of one request.
type Expect struct {
	ArgsBare   bool // some plugin sent the bare args removal marker: outcome stated for conflicts only
	Verdict    string
	Why        string
	FailItem   string // item on which the model found the (first) conflict
	FailPlugin [2]int // positions (earlier, later)
	FailPath   string

	Views    []*CView  // create: what plugin i must be shown
	ResViews []ResFlat // update: resources plugin i must be shown
	Final    *CView    // create: container after all plugins

	AdjRes   ResFlat            // create: resources of the combined adjustment
	Upd      map[string]ResFlat // expected fields per update target (owner's values)
	UpdOrder []string           // targets in the order first named
	OwnRes   ResFlat            // update request: requested overlaid with plugin changes
	OwnNamed bool               // some plugin named the request's own container
	OwnSet   bool               // some plugin's committed update changed it
	Dropped  []string           // marker values of dropped (ignored) updates
	BlankOK  map[string]bool    // targets for which an entry with no fields is acceptable
	Owner    map[string]map[string]int

	// statistics for coverage signatures
	Collisions   int // number of second claimants the ledger saw (conflicts)
	Releases     int // removal markers that released an existing claim
	LoneRemovals int
	ReSets       int // remove-then-set in one response
	IgnoredDrops int
}

type ledger struct {
	owner   map[string]map[string]int  // target -> item -> plugin position
	tainted map[string]map[string]bool // target -> item named by a dropped update
}

func (l *ledger) get(t, item string) (int, bool) {
	p, ok := l.owner[t][item]
	return p, ok
}
func (l *ledger) put(t, item string, p int) {
	if l.owner[t] == nil {
		l.owner[t] = map[string]int{}
	}
	l.owner[t][item] = p
}
func (l *ledger) release(t, item string) bool {
	if _, ok := l.owner[t][item]; ok {
		delete(l.owner[t], item)
		return true
	}
	return false
}

// Evaluate computes the expectation for a request.
//
//	kind: "create", "update" or "stop"; ctr: the original container (create: full; else id only
//	matters); reqRes: the runtime's requested resources (update only); resp: per plugin in
//	invocation order.
//
// markedForRemoval is the reference reading of the documented removal marker: exactly one leading '-'.
// (The project's own helper is deliberately not used by the oracles.)
func markedForRemoval(key string) (string, bool) {
	if strings.HasPrefix(key, "-") {
		return key[1:], true
	}
	return key, false
}

func Evaluate(kind string, ctr *api.Container, reqRes *api.LinuxResources, resp []PResp) *Expect {
	e := &Expect{Verdict: MustSucceed, Upd: map[string]ResFlat{}, BlankOK: map[string]bool{}}
	led := &ledger{owner: map[string]map[string]int{}, tainted: map[string]map[string]bool{}}
	self := ctr.GetId()
	view := viewOfContainer(ctr)
	e.AdjRes = newResFlat()
	e.OwnRes = flattenRes(reqRes)

	fail := func(item string, a, b int, path, why string) {
		if e.Verdict == MustSucceed {
			e.Verdict = MustFail
			e.FailItem, e.FailPlugin, e.FailPath, e.Why = item, [2]int{a, b}, path, why
		}
	}
	unspec := func(why string) {
		if e.Verdict != Unspecified {
			e.Verdict = Unspecified
			e.Why = why
		}
	}
	// claim returns false on conflict.
	claim := func(t, item string, p int, path string) bool {
		if led.tainted[t][item] {
			unspec("claim on an item named by an earlier dropped ignore-failure update: " + item)
		}
		if o, ok := led.get(t, item); ok {
			if o == p {
				unspec("plugin names the same item twice in one response: " + item)
				return false
			}
			e.Collisions++
			return false
		}
		led.put(t, item, p)
		return true
	}

	for i, r := range resp {
		if e.Verdict == MustFail {
			break // later plugins are never invoked once the request failed
		}
		if kind == "create" {
			e.Views = append(e.Views, view.clone())
		} else if kind == "update" {
			e.ResViews = append(e.ResViews, e.OwnRes.clone())
		}
		if kind == "create" && r.Adjust != nil {
			a := r.Adjust
			t := self
			// --- removable keyed families: markers release first, then sets claim
			rel := func(item string, alsoSet bool) {
				if led.release(t, item) {
					e.Releases++
				}
				if alsoSet {
					e.ReSets++
				} else {
					e.LoneRemovals++
				}
			}
			// annotations
			{
				sets := map[string]string{}
				marks := map[string]bool{}
				for k, v := range a.Annotations {
					if key, m := markedForRemoval(k); m {
						marks[key] = true
					} else {
						sets[k] = v
					}
				}
				for k := range marks {
					_, also := sets[k]
					rel("annotation:"+k, also)
					delete(view.Ann, k)
				}
				for k, v := range sets {
					if !claim(t, "annotation:"+k, i, "create-adjust") {
						o, _ := led.get(t, "annotation:"+k)
						fail("annotation:"+k, o, i, "create-adjust", "two plugins set annotation "+k)
					}
					view.Ann[k] = v
				}
			}
			// mounts
			{
				sets := map[string]*api.Mount{}
				var order []string
				marks := map[string]bool{}
				for _, m := range a.Mounts {
					if key, mk := markedForRemoval(m.Destination); mk {
						marks[key] = true
					} else {
						if _, dup := sets[m.Destination]; dup {
							unspec("plugin names the same mount twice")
						}
						sets[m.Destination] = m
						order = append(order, m.Destination)
					}
				}
				for k := range marks {
					_, also := sets[k]
					rel("mount:"+k, also)
					delete(view.Mounts, k)
				}
				for _, k := range order {
					if !claim(t, "mount:"+k, i, "create-adjust") {
						o, _ := led.get(t, "mount:"+k)
						fail("mount:"+k, o, i, "create-adjust", "two plugins set mount "+k)
					}
					view.Mounts[k] = mountStr(sets[k])
				}
			}
			// env
			{
				sets := map[string]string{}
				var order []string
				marks := map[string]bool{}
				for _, kv := range a.Env {
					if key, mk := markedForRemoval(kv.Key); mk {
						marks[key] = true
					} else {
						if _, dup := sets[kv.Key]; dup {
							unspec("plugin names the same env variable twice")
						}
						sets[kv.Key] = kv.Value
						order = append(order, kv.Key)
					}
				}
				for k := range marks {
					_, also := sets[k]
					rel("env:"+k, also)
					delete(view.Env, k)
				}
				for _, k := range order {
					if !claim(t, "env:"+k, i, "create-adjust") {
						o, _ := led.get(t, "env:"+k)
						fail("env:"+k, o, i, "create-adjust", "two plugins set env "+k)
					}
					view.Env[k] = sets[k]
				}
			}
			// args
			if len(a.Args) > 0 {
				args := a.Args
				if args[0] == "" {
					if led.release(t, "args") {
						e.Releases++
					}
					args = args[1:]
					if len(args) == 0 {
						// a removal and no conflict, that much is stated; the resulting command line is not
						e.ArgsBare = true
					} else {
						e.ReSets++
					}
				}
				if !claim(t, "args", i, "create-adjust") {
					o, _ := led.get(t, "args")
					fail("args", o, i, "create-adjust", "two plugins set args")
				}
				view.Args = append([]string(nil), args...)
			}
			// hooks
			for hi, l := range hookLists(a.Hooks) {
				for _, h := range l {
					view.Hooks[hi] = append(view.Hooks[hi], hookStr(h))
				}
			}
			if a.Linux != nil {
				// devices
				sets := map[string]*api.LinuxDevice{}
				var order []string
				marks := map[string]bool{}
				for _, d := range a.Linux.Devices {
					if key, mk := markedForRemoval(d.Path); mk {
						marks[key] = true
					} else {
						if _, dup := sets[d.Path]; dup {
							unspec("plugin names the same device twice")
						}
						sets[d.Path] = d
						order = append(order, d.Path)
					}
				}
				for k := range marks {
					_, also := sets[k]
					rel("device:"+k, also)
					delete(view.Devs, k)
				}
				for _, k := range order {
					if !claim(t, "device:"+k, i, "create-adjust") {
						o, _ := led.get(t, "device:"+k)
						fail("device:"+k, o, i, "create-adjust", "two plugins set device "+k)
					}
					view.Devs[k] = devStr(sets[k])
				}
				// resources
				rf := flattenRes(a.Linux.Resources)
				if len(rf.HDup) > 0 {
					unspec("plugin names the same hugepage size twice")
				}
				for _, item := range rf.items() {
					v, _ := rf.get(item)
					if !claim(t, item, i, "create-adjust") {
						o, _ := led.get(t, item)
						fail(item, o, i, "create-adjust", "two plugins set "+item)
					}
					view.Res.set(item, v)
					e.AdjRes.set(item, v)
				}
				if a.Linux.CgroupsPath != "" {
					if !claim(t, "cgroupspath", i, "create-adjust") {
						o, _ := led.get(t, "cgroupspath")
						fail("cgroupspath", o, i, "create-adjust", "two plugins set the cgroups path")
					}
					view.Cgroups = a.Linux.CgroupsPath
				}
				if a.Linux.OomScoreAdj != nil {
					if !claim(t, "oomscoreadj", i, "create-adjust") {
						o, _ := led.get(t, "oomscoreadj")
						fail("oomscoreadj", o, i, "create-adjust", "two plugins set the OOM score adjustment")
					}
					view.Oom = fmt.Sprint(a.Linux.OomScoreAdj.Value)
				}
			}
			// rlimits
			for _, l := range a.Rlimits {
				if !claim(t, "rlimit:"+l.Type, i, "create-adjust") {
					o, _ := led.get(t, "rlimit:"+l.Type)
					fail("rlimit:"+l.Type, o, i, "create-adjust", "two plugins set rlimit "+l.Type)
				}
				view.Rlimits = append(view.Rlimits, rlimitStr(l))
			}
			// CDI devices
			for _, d := range a.CDIDevices {
				if !claim(t, "cdi:"+d.Name, i, "create-adjust") {
					o, _ := led.get(t, "cdi:"+d.Name)
					fail("cdi:"+d.Name, o, i, "create-adjust", "two plugins inject CDI device "+d.Name)
				}
			}
		}
		if e.Verdict == MustFail {
			break
		}

		// --- updates
		for _, u := range r.Updates {
			t := u.ContainerId
			if kind == "create" && t == self {
				fail("update-of-created", i, i, "create-update-self", "update targets the container being created")
				break
			}
			path := kind + "-3p"
			if kind == "update" && t == self {
				path = "update-own"
				e.OwnNamed = true
			} else if t == self {
				path = kind + "-own"
			}
			if _, known := e.Upd[t]; !known {
				e.Upd[t] = newResFlat()
				e.UpdOrder = append(e.UpdOrder, t)
			}
			if u.Linux == nil || u.Linux.Resources == nil {
				e.BlankOK[t] = true
				continue
			}
			rf := flattenRes(u.Linux.Resources)
			if len(rf.HDup) > 0 {
				unspec("update names the same hugepage size twice")
			}
			items := rf.items()
			// find conflicts without committing
			conflictItem, conflictOwner := "", -1
			for _, item := range items {
				if led.tainted[t][item] {
					unspec("update names an item named by an earlier dropped update: " + item)
				}
				if o, ok := led.get(t, item); ok {
					if o == i {
						unspec("plugin names the same item twice in one response: " + item)
					} else {
						e.Collisions++
					}
					if conflictItem == "" {
						conflictItem, conflictOwner = item, o
					}
				}
			}
			if conflictItem != "" {
				if u.IgnoreFailure {
					e.IgnoredDrops++
					e.BlankOK[t] = true
					if led.tainted[t] == nil {
						led.tainted[t] = map[string]bool{}
					}
					for _, item := range items {
						if _, owned := led.get(t, item); !owned {
							led.tainted[t][item] = true
						}
						v, _ := rf.get(item)
						e.Dropped = append(e.Dropped, item+"="+v)
					}
					continue
				}
				fail(conflictItem, conflictOwner, i, path, "two plugins set "+conflictItem+" of "+t)
				break
			}
			for _, item := range items {
				led.put(t, item, i)
				v, _ := rf.get(item)
				e.Upd[t].set(item, v)
				if kind == "update" && t == self {
					e.OwnRes.set(item, v)
					e.OwnSet = true
				}
			}
		}
	}
	e.Final = view
	e.Owner = led.owner
	return e
}
