package main

import (
	"encoding/json"
	"fmt"
	"os"
	"path/filepath"
	"runtime/debug"
	"sort"
	"strconv"
	"strings"
	"sync"
	"time"

	"nriverif/internal/ev"
)

// Check describes one property's check.
type Check struct {
	ID          string
	Level       string
	Rule        string
	Anchors     []string // files whose races count as this property's violation
	Assumptions []string
	MinNontriv  int
	Exhaustive  func(tier string) bool
	Plan        func(tier string) []ev.ChildSpec
	Parallel    func(tier string) int
	Watchdog    func(tier string) time.Duration
	Run         func(c *ev.ChildEnv, r *ev.Result)
	// Post lets the parent add parent-side observations (e.g. process table) before finishing.
	Post func(tier string, total *ev.Result, outs []*ev.ChildOutcome)
	// CrashOK: a crashed child is a violation of this property (process liveness is part of it).
}

var checks = map[string]*Check{}

func register(c *Check) { checks[c.ID] = c }

func usage() {
	fmt.Fprintln(os.Stderr, "usage: vcheck <Cnn> quick|thorough | vcheck --replay <file> | vcheck --list")
	os.Exit(2)
}

func main() {
	if len(os.Args) < 2 {
		usage()
	}
	switch os.Args[1] {
	case "--list":
		var ids []string
		for id := range checks {
			ids = append(ids, id)
		}
		sort.Strings(ids)
		fmt.Println(strings.Join(ids, " "))
		return
	case "--child":
		childMain(os.Args[2:])
		return
	case "--replay":
		if len(os.Args) < 3 {
			usage()
		}
		os.Exit(replayMain(os.Args[2]))
	}
	if len(os.Args) < 3 {
		usage()
	}
	os.Exit(parentMain(os.Args[1], os.Args[2], nil))
}

func childMain(args []string) {
	if len(args) < 2 {
		usage()
	}
	c := &ev.ChildEnv{Prop: args[0], Tier: args[1], Seed: ev.Seed(), Batches: 1}
	for i := 2; i+1 < len(args); i += 2 {
		switch args[i] {
		case "--batch":
			c.Batch, _ = strconv.Atoi(args[i+1])
		case "--batches":
			c.Batches, _ = strconv.Atoi(args[i+1])
		case "--dir":
			c.Dir = args[i+1]
		case "--replay":
			c.Replay = args[i+1]
		}
	}
	ck := checks[c.Prop]
	if ck == nil {
		fmt.Fprintln(os.Stderr, "unknown check", c.Prop)
		os.Exit(2)
	}
	debug.SetTraceback("all")
	r := ev.NewResult()
	// partial results survive a child that ends in the outer watchdog
	stopSnap := make(chan struct{})
	go func() {
		for {
			select {
			case <-stopSnap:
				return
			case <-time.After(15 * time.Second):
				c.WriteResult(r)
			}
		}
	}()
	ck.Run(c, r)
	close(stopSnap)
	if err := c.WriteResult(r); err != nil {
		fmt.Fprintln(os.Stderr, "cannot write result:", err)
		os.Exit(4)
	}
}

func parentMain(prop, tier string, extraArgs []string) int {
	ck := checks[prop]
	if ck == nil {
		fmt.Fprintln(os.Stderr, "unknown check", prop)
		return 2
	}
	if tier != "quick" && tier != "thorough" {
		usage()
	}
	start := time.Now()
	// stale replay files of earlier runs of this property would only mislead
	if old, _ := filepath.Glob(filepath.Join(ev.VerifDir, "replays", prop+"[_.]*")); len(old) > 0 {
		for _, f := range old {
			os.Remove(f)
		}
	}
	dir := ev.WorkDir(prop)
	defer func() {
		if os.Getenv("VERIF_KEEP") == "" {
			os.RemoveAll(dir)
		}
	}()
	specs := ck.Plan(tier)
	for i := range specs {
		specs[i].Batch = i
		specs[i].Batches = len(specs)
		specs[i].Args = append(specs[i].Args, extraArgs...)
	}
	par := 4
	if ck.Parallel != nil {
		par = ck.Parallel(tier)
	}
	wd := 5 * time.Minute
	if tier == "thorough" {
		wd = 40 * time.Minute
	}
	if ck.Watchdog != nil {
		wd = ck.Watchdog(tier)
	}
	outs := make([]*ev.ChildOutcome, len(specs))
	sem := make(chan struct{}, par)
	var wg sync.WaitGroup
	for i := range specs {
		wg.Add(1)
		sem <- struct{}{}
		go func(i int) {
			defer wg.Done()
			defer func() { <-sem }()
			outs[i] = ev.RunChild(prop, tier, specs[i], dir, wd)
		}(i)
	}
	wg.Wait()

	total := ev.NewResult()
	harnessBug := false
	var raceOther []string
	raceSeen := map[string]bool{}
	for _, o := range outs {
		if o.Result != nil {
			total.Merge(o.Result)
		}
		if o.TimedOut {
			total.Inconclusive++
			total.Note("batch %d: outer watchdog fired after %s (inconclusive); last case: %s", o.Spec.Batch, o.Wall.Round(time.Second), o.LastWAL)
			keepLog(o, prop, "watchdog")
		}
		if o.Crashed {
			logTxt := tail(o.LogPath, 200)
			site := crashSite(logTxt)
			if site == "" {
				harnessBug = true
				fmt.Printf("HARNESS-BUG property=%s: child batch %d died without an NRI frame on the stack; log kept at %s\n", prop, o.Spec.Batch, keepLog(o, prop, "crash"))
				continue
			}
			kept := keepLog(o, prop, "crash")
			total.Violate(prop+"/crash/"+site,
				fmt.Sprintf("process died while running case [%s]; top NRI frame %s; log %s; %s", o.LastWAL, site, kept, firstPanicLine(logTxt)),
				map[string]any{"last_case": o.LastWAL, "log": kept})
		}
		for _, rr := range ev.ParseRaceLogs(o.RaceLogs) {
			if raceSeen[rr.Key] {
				continue
			}
			raceSeen[rr.Key] = true
			switch {
			case rr.TopRepo && rr.TouchesAny(ck.Anchors):
				total.Violate(prop+"/race/"+raceSite(rr), "data race on this property's mechanism:\n"+rr.Text, map[string]any{"race": rr.Text})
			case rr.TopRepo:
				raceOther = append(raceOther, raceSite(rr))
			default:
				harnessBug = true
				p := filepath.Join(ev.VerifDir, "replays", prop+".harness-race.txt")
				os.MkdirAll(filepath.Dir(p), 0o755)
				os.WriteFile(p, []byte(rr.Text), 0o644)
				fmt.Printf("HARNESS-BUG property=%s: race report without NRI frames, see %s\n", prop, p)
			}
		}
	}
	total.Counters["race_reports_distinct"] = int64(len(raceSeen))
	total.Counters["children"] = int64(len(outs))
	if ck.Post != nil {
		ck.Post(tier, total, outs)
	}
	rep := ev.Report{Prop: prop, Tier: tier, Level: ck.Level, Rule: ck.Rule, Assumptions: ck.Assumptions,
		MinNontriv: ck.MinNontriv, Extra: map[string]any{}}
	if ck.Exhaustive != nil {
		rep.Exhaustive = ck.Exhaustive(tier)
	}
	if len(raceOther) > 0 {
		rep.Extra["other_race_reports"] = raceOther
	}
	var cpus []string
	for _, s := range specs {
		cpus = append(cpus, fmt.Sprintf("b%d:GOMAXPROCS=%d,cpus=%q", s.Batch, s.GOMAXPROCS, s.CPUs))
	}
	rep.Extra["children_settings"] = cpus
	code := ev.Finish(rep, total, start)
	if harnessBug && code == 0 {
		return 3
	}
	if code == 0 {
		for _, o := range outs {
			if o.TimedOut {
				fmt.Printf("INCONCLUSIVE property=%s: the outer watchdog stopped batch %d before it finished (last case: %s); log kept under /verif/replays\n", prop, o.Spec.Batch, o.LastWAL)
				return 3
			}
		}
	}
	return code
}

func keepLog(o *ev.ChildOutcome, prop, why string) string {
	dst := filepath.Join(ev.VerifDir, "replays", fmt.Sprintf("%s.b%d.%s.log", prop, o.Spec.Batch, why))
	os.MkdirAll(filepath.Dir(dst), 0o755)
	b, err := os.ReadFile(o.LogPath)
	if err == nil {
		if len(b) > 4<<20 {
			b = append(b[:2<<20], b[len(b)-(2<<20):]...)
		}
		os.WriteFile(dst, b, 0o644)
	}
	return dst
}

func tail(path string, n int) string {
	b, err := os.ReadFile(path)
	if err != nil {
		return ""
	}
	if len(b) > 1<<20 {
		// keep head (panic message) and tail
		return string(b[:1<<19]) + "\n…\n" + string(b[len(b)-(1<<19):])
	}
	return string(b)
}

func firstPanicLine(log string) string {
	for _, l := range strings.Split(log, "\n") {
		if strings.HasPrefix(l, "panic:") || strings.HasPrefix(l, "fatal error:") {
			return l
		}
	}
	return ""
}

// crashSite returns the first NRI function on the panicking goroutine's stack ("" if none).
func crashSite(log string) string {
	lines := strings.Split(log, "\n")
	start := -1
	for i, l := range lines {
		if strings.HasPrefix(l, "panic:") || strings.HasPrefix(l, "fatal error:") {
			start = i
			break
		}
	}
	if start < 0 {
		return ""
	}
	// first goroutine block after the panic line is the panicking one
	inFirst := false
	for _, l := range lines[start:] {
		if strings.HasPrefix(l, "goroutine ") {
			if inFirst {
				break
			}
			inFirst = true
			continue
		}
		if inFirst && strings.HasPrefix(l, "github.com/containerd/nri/pkg/") {
			fn := l
			if i := strings.LastIndex(fn, "("); i > 0 {
				fn = fn[:i]
			}
			fn = strings.TrimPrefix(fn, "github.com/containerd/nri/pkg/")
			return strings.NewReplacer("(", "", ")", "", "*", "").Replace(fn)
		}
	}
	return ""
}

func raceSite(rr ev.RaceReport) string {
	for _, fr := range rr.Frames {
		if strings.Contains(fr, "/repo/") {
			fn := strings.Fields(fr)[0]
			fn = strings.TrimPrefix(fn, "github.com/containerd/nri/pkg/")
			return strings.NewReplacer("(", "", ")", "", "*", "").Replace(fn)
		}
	}
	return "unknown"
}

// replayMain re-runs the check a replay file belongs to at the recorded seed and tier and reports
// whether the recorded signature shows again (case lists are a function of the seed alone).
func replayMain(path string) int {
	b, err := os.ReadFile(path)
	if err != nil {
		fmt.Fprintln(os.Stderr, err)
		return 2
	}
	var rp struct {
		Property  string `json:"property"`
		Signature string `json:"signature"`
		Seed      int64  `json:"seed"`
		Tier      string `json:"tier"`
	}
	if err := json.Unmarshal(b, &rp); err != nil {
		fmt.Fprintln(os.Stderr, err)
		return 2
	}
	os.Setenv("VERIF_SEED", strconv.FormatInt(rp.Seed, 10))
	fmt.Printf("replaying %s (signature %s) at seed %d tier %s\n", rp.Property, rp.Signature, rp.Seed, rp.Tier)
	return parentMain(rp.Property, rp.Tier, nil)
}

// ---------------------------------------------------------------------------
// plan helpers

func tierN(tier string, quick, thorough int) int {
	if tier == "thorough" {
		return thorough
	}
	return quick
}

// cpuSettings are the schedule-perturbing settings used by schedule-quantified checks.
var cpuSettings = []struct {
	GOMAXPROCS int
	CPUs       string
}{{0, ""}, {2, "0-1"}, {4, "0-3"}, {1, "0"}}
