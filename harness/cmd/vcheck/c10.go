package main

// C10 — multiplexed connections deliver each stream complete, in order and isolated.

import (
	"fmt"
	"hash/fnv"
	"math/rand/v2"
	"net"
	"os"
	"sort"
	"strings"
	"sync"
	"sync/atomic"
	"time"

	"nriverif/internal/ev"
	"nriverif/internal/rig"

	"github.com/anishathalye/porcupine"
	"github.com/containerd/nri/pkg/net/multiplex"
)

type c10Round struct {
	K, W, Qlen int
	Trunk      string
	Msgs       int
	Sizes      string // small | mixed | big
	Hook       bool
}

type c10Sent struct {
	Writer    uint16
	Seq       uint32
	Call, Ret int64
}

// one direction of one logical connection
type c10Lane struct {
	id     uint32
	dir    string
	w, r   net.Conn
	cr     *credit
	sentMu sync.Mutex
	sent   []c10Sent
	zeroW  atomic.Int64
	zeroR  atomic.Int64
	parser *streamParser
	deq    []int64 // tick at which message i was completely received
	deqBeg []int64 // tick before the Read that completed message i started
	done   chan struct{}
}

var c10ConnIDs = []uint32{1, 2, 3, 7, 100, 65535, 1 << 31, 0xfffffffe}

func c10Sizes(g *rand.Rand, mode string, maxFrames int) int {
	pick := func(s []int) int { return s[g.IntN(len(s))] }
	small := []int{0, 1, 7, 100, 4096 - msgHdrLen, 4096}
	switch mode {
	case "small":
		return pick(small)
	case "mixed":
		if g.IntN(4) != 0 {
			return pick(small)
		}
		return g.IntN(20000)
	}
	// big: around the frame boundary, total write size = msgHdrLen + n
	big := []int{muxFrameMax - 1 - msgHdrLen, muxFrameMax - msgHdrLen, muxFrameMax + 1 - msgHdrLen, 2*muxFrameMax + 3 - msgHdrLen}
	for {
		n := pick(small)
		if g.IntN(3) == 0 {
			n = pick(big)
		}
		if framesOf(msgHdrLen+n) <= maxFrames {
			return n
		}
	}
}

func runC10Round(rd c10Round, g *rand.Rand, res *ev.Result, tag string) {
	a, b, err := trunkPair(rd.Trunk)
	if err != nil {
		res.Note("trunk: %v", err)
		return
	}
	ma := multiplex.Multiplex(a, multiplex.WithReadQueueLength(rd.Qlen))
	mb := multiplex.Multiplex(b, multiplex.WithReadQueueLength(rd.Qlen))
	defer ma.Close()
	defer mb.Close()
	ids := append([]uint32(nil), c10ConnIDs...)
	g.Shuffle(len(ids), func(i, j int) { ids[i], ids[j] = ids[j], ids[i] })
	ids = ids[:rd.K]
	var lanes []*c10Lane
	for _, id := range ids {
		ca, e1 := ma.Open(multiplex.ConnID(id))
		cb, e2 := mb.Open(multiplex.ConnID(id))
		if e1 != nil || e2 != nil {
			res.Violate("C10/open-error", fmt.Sprintf("Open(%d): %v %v", id, e1, e2), rd)
			return
		}
		lanes = append(lanes,
			&c10Lane{id: id, dir: "a2b", w: ca, r: cb},
			&c10Lane{id: id, dir: "b2a", w: cb, r: ca})
	}
	var progress atomic.Int64
	var failed atomic.Bool
	fail := func(sig, what string) {
		failed.Store(true)
		res.Violate(sig, what, map[string]any{"round": rd, "tag": tag})
	}
	var wg sync.WaitGroup
	zeroEvery := 0
	if rd.Sizes != "big" {
		zeroEvery = 9
	}
	maxFrames := rd.Qlen - 1
	for _, ln := range lanes {
		ln := ln
		ln.cr = newCredit(rd.Qlen - 1)
		ln.parser = newStreamParser(ln.id)
		ln.done = make(chan struct{})
		var curBeg int64
		ln.parser.onMsg = func(parsedMsg) {
			ln.deq = append(ln.deq, rig.Tick())
			ln.deqBeg = append(ln.deqBeg, curBeg)
		}
		expectMsgs := rd.W * rd.Msgs
		// reader
		wg.Add(1)
		go func() {
			defer wg.Done()
			defer close(ln.done)
			buf := make([]byte, muxFrameMax)
			for len(ln.parser.msgs) < expectMsgs {
				beg := rig.Tick()
				n, err := ln.r.Read(buf)
				if err != nil {
					if !failed.Load() {
						fail("C10/read-error", fmt.Sprintf("conn %d %s: Read failed on a healthy trunk after %d messages: %v", ln.id, ln.dir, len(ln.parser.msgs), err))
					}
					return
				}
				if !ln.parser.inBody && len(ln.parser.hdr) == 0 {
					curBeg = beg
				}
				ln.cr.release(1)
				progress.Add(1)
				if n == 0 {
					ln.zeroR.Add(1)
					continue
				}
				if !ln.parser.feed(buf[:n]) {
					fail("C10/stream-damaged", fmt.Sprintf("conn %d %s: %s", ln.id, ln.dir, ln.parser.err))
					return
				}
			}
		}()
		// writers
		for w := 0; w < rd.W; w++ {
			w := w
			wg.Add(1)
			seed := g.Uint64()
			go func() {
				defer wg.Done()
				lg := rand.New(rand.NewPCG(seed, uint64(w)))
				for seq := 0; seq < rd.Msgs; seq++ {
					if failed.Load() {
						return
					}
					if zeroEvery > 0 && lg.IntN(zeroEvery) == 0 {
						if !ln.cr.acquire(1) {
							return
						}
						ln.zeroW.Add(1)
						if n, err := ln.w.Write(nil); err != nil || n != 0 {
							fail("C10/write-error", fmt.Sprintf("conn %d %s: empty Write returned (%d, %v)", ln.id, ln.dir, n, err))
							return
						}
					}
					n := c10Sizes(lg, rd.Sizes, maxFrames)
					msg := buildMsg(ln.id, uint16(w), uint32(seq), n)
					if !ln.cr.acquire(framesOf(len(msg))) {
						return
					}
					call := rig.Tick()
					wn, err := ln.w.Write(msg)
					ret := rig.Tick()
					if err != nil || wn != len(msg) {
						fail("C10/write-error", fmt.Sprintf("conn %d %s: Write of %d bytes returned (%d, %v) on a healthy trunk", ln.id, ln.dir, len(msg), wn, err))
						return
					}
					progress.Add(1)
					ln.sentMu.Lock()
					ln.sent = append(ln.sent, c10Sent{Writer: uint16(w), Seq: uint32(seq), Call: call, Ret: ret})
					ln.sentMu.Unlock()
					res.Count("bytes_written", int64(len(msg)))
					res.Count("frames_written", int64(framesOf(len(msg))))
					if len(msg) > muxFrameMax {
						res.Count("oversized_messages", 1)
					}
				}
			}()
		}
	}
	// stall monitor
	allDone := make(chan struct{})
	go func() { wg.Wait(); close(allDone) }()
	last, lastT := int64(-1), time.Now()
	for stalled := false; !stalled; {
		select {
		case <-allDone:
			stalled = true
		case <-time.After(200 * time.Millisecond):
			if p := progress.Load(); p != last {
				last, lastT = p, time.Now()
			} else if time.Since(lastT) > 20*time.Second {
				fail("C10/stalled", "no progress for 20 s although every receiver keeps up with the queue length; goroutines:\n"+nriStacks())
				for _, ln := range lanes {
					ln.cr.kill()
				}
				ma.Close()
				mb.Close()
				<-allDone
				stalled = true
			}
		}
	}
	if failed.Load() {
		return
	}
	// offline oracles
	for _, ln := range lanes {
		if got, want := len(ln.parser.msgs), rd.W*rd.Msgs; got != want {
			fail("C10/incomplete", fmt.Sprintf("conn %d %s: %d of %d messages received", ln.id, ln.dir, got, want))
			continue
		}
		if ln.parser.partial() {
			fail("C10/incomplete", fmt.Sprintf("conn %d %s: stream ends inside a message", ln.id, ln.dir))
		}
		if ln.zeroR.Load() != ln.zeroW.Load() {
			fail("C10/empty-frame-lost", fmt.Sprintf("conn %d %s: %d empty writes but %d empty reads", ln.id, ln.dir, ln.zeroW.Load(), ln.zeroR.Load()))
		}
		// real-time order across writers: a write that returned before another was called precedes it
		idx := map[[2]uint32]c10Sent{}
		for _, s := range ln.sent {
			idx[[2]uint32{uint32(s.Writer), s.Seq}] = s
		}
		var maxCall int64
		h := fnv.New64a()
		for _, m := range ln.parser.msgs {
			s := idx[[2]uint32{uint32(m.Writer), m.Seq}]
			if maxCall > s.Ret {
				fail("C10/realtime-order", fmt.Sprintf("conn %d %s: message (writer %d seq %d) whose Write returned at tick %d was delivered after a message whose Write was only called at tick %d", ln.id, ln.dir, m.Writer, m.Seq, s.Ret, maxCall))
				break
			}
			if s.Call > maxCall {
				maxCall = s.Call
			}
			h.Write([]byte{byte(m.Writer)})
		}
		if rd.W > 1 {
			res.Seen(fmt.Sprintf("order|%x", h.Sum64()))
		}
		// porcupine: FIFO queue, one partition per lane, short histories only
		if total := len(ln.parser.msgs); total <= 60 {
			var ops []porcupine.Operation
			for _, s := range ln.sent {
				ops = append(ops, porcupine.Operation{ClientId: int(s.Writer), Input: fmt.Sprintf("e%d.%d", s.Writer, s.Seq), Call: s.Call, Return: s.Ret, Output: ""})
			}
			for i, m := range ln.parser.msgs {
				ops = append(ops, porcupine.Operation{ClientId: 1000, Input: "d", Call: ln.deqBeg[i], Return: ln.deq[i], Output: fmt.Sprintf("e%d.%d", m.Writer, m.Seq)})
			}
			switch porcupine.CheckOperationsTimeout(fifoModel, ops, 2*time.Second) {
			case porcupine.Illegal:
				fail("C10/not-fifo", fmt.Sprintf("conn %d %s: the write/read history is not a linearizable FIFO queue history", ln.id, ln.dir))
			case porcupine.Unknown:
				res.Count("porcupine_unknown", 1)
			default:
				res.Count("porcupine_histories_ok", 1)
			}
		}
	}
	res.Seen(fmt.Sprintf("round|K%d|W%d|q%d|%s|%s|hook%v", rd.K, rd.W, rd.Qlen, rd.Trunk, rd.Sizes, rd.Hook))
}

var fifoModel = porcupine.Model{
	Init: func() interface{} { return "" },
	Step: func(state, input, output interface{}) (bool, interface{}) {
		st := state.(string)
		in := input.(string)
		if in != "d" {
			return true, st + in + ","
		}
		want := output.(string) + ","
		if strings.HasPrefix(st, want) {
			return true, st[len(want):]
		}
		return false, st
	},
	Equal: func(a, b interface{}) bool { return a.(string) == b.(string) },
}

// nriStacks returns the goroutines that sit in NRI code, the ones that hold or wait for locks, relay a
// request or run a registration first; the complete dump is kept in a file under /verif/replays/hangs.
func nriStacks() string {
	all := allStacks()
	os.MkdirAll("/verif/replays/hangs", 0o755)
	file := fmt.Sprintf("/verif/replays/hangs/%d.%d.txt", os.Getpid(), rig.Tick())
	os.WriteFile(file, []byte(all), 0o644)
	score := func(g string) int {
		sc := 0
		for _, k := range []string{"sync.(*Mutex).Lock", "sync.(*RWMutex)", "acceptPluginConnections", "adaptation.(*Adaptation).", "stub.(*stub).Start",
			"stub.(*stub).Stop", "stub.(*stub).Wait", "stub.(*stub).connClosed", "(*mux).Close", "(*mux).write", "(*plugin).close", "(*plugin).synchronize"} {
			if strings.Contains(g, k) {
				sc += 2
			}
		}
		if strings.Contains(g, "connListener).Accept") || strings.Contains(g, "(*serverConn).run") {
			sc-- // idle servers
		}
		return sc
	}
	var gs []string
	for _, g := range strings.Split(all, "\n\n") {
		if strings.Contains(g, "containerd/nri/pkg/") {
			gs = append(gs, g)
		}
	}
	sort.SliceStable(gs, func(i, j int) bool { return score(gs[i]) > score(gs[j]) })
	var out []string
	for _, g := range gs {
		// keep function lines, drop file/line lines: more goroutines fit
		var fl []string
		for _, l := range strings.Split(g, "\n") {
			if !strings.HasPrefix(l, "\t") {
				fl = append(fl, l)
			}
		}
		g = strings.Join(fl, "\n")
		if len(g) > 600 {
			g = g[:600]
		}
		out = append(out, g)
		if len(out) >= 8 {
			break
		}
	}
	return "(full dump: " + file + ")\n" + strings.Join(out, "\n\n")
}

// recvN reads n complete messages from c (through a fresh parser starting at sequence seq0) or reports why not.
func recvN(c net.Conn, id uint32, seq0 uint32, n int, d time.Duration) string {
	p := newStreamParser(id)
	p.next[0] = seq0
	done := make(chan string, 1)
	var got atomic.Int64 // the reader goroutine may still be running when the timeout below reports
	go func() {
		buf := make([]byte, muxFrameMax)
		for len(p.msgs) < n {
			got.Store(int64(len(p.msgs)))
			k, err := c.Read(buf)
			if err != nil {
				done <- fmt.Sprintf("read error after %d of %d messages: %v", len(p.msgs), n, err)
				return
			}
			if !p.feed(buf[:k]) {
				done <- p.err
				return
			}
		}
		done <- ""
	}()
	select {
	case r := <-done:
		return r
	case <-time.After(d):
		return fmt.Sprintf("only about %d of %d messages arrived within %s", got.Load(), n, d)
	}
}

func sendN(c net.Conn, id uint32, seq0 uint32, n int) error {
	for i := 0; i < n; i++ {
		if _, err := c.Write(buildMsg(id, 0, seq0+uint32(i), 10+i)); err != nil {
			return err
		}
	}
	return nil
}

// c10Handles: connection handles obtained concurrently, closed and obtained again still carry the
// stream of their connection id, and a locally closed connection does not disturb the others.
func c10Handles(g *rand.Rand, res *ev.Result, trunk string, tag string) {
	a, b, err := trunkPair(trunk)
	if err != nil {
		return
	}
	qlen := 8
	ma := multiplex.Multiplex(a, multiplex.WithReadQueueLength(qlen))
	mb := multiplex.Multiplex(b, multiplex.WithReadQueueLength(qlen))
	defer ma.Close()
	defer mb.Close()
	what := map[string]any{"scenario": "handles", "trunk": trunk, "tag": tag}
	viol := func(sig, msg string) { res.Violate("C10/"+sig, msg, what) }
	// (a) concurrent Open of one id from several goroutines on both ends
	for round := 0; round < 40; round++ {
		id := uint32(1000 + round)
		n := 2 + g.IntN(7)
		open := func(m multiplex.Mux) []net.Conn {
			hs := make([]net.Conn, n)
			var wg sync.WaitGroup
			start := make(chan struct{})
			for i := range hs {
				wg.Add(1)
				go func(i int) {
					defer wg.Done()
					<-start
					if i%2 == 0 {
						hs[i], _ = m.Open(multiplex.ConnID(id))
					} else {
						hs[i], _ = m.Dialer(multiplex.ConnID(id))("", "")
					}
				}(i)
			}
			close(start)
			wg.Wait()
			return hs
		}
		ha, hb := open(ma), open(mb)
		wa, rb := ha[g.IntN(n)], hb[g.IntN(n)]
		if wa == nil || rb == nil {
			viol("open-error", "Open returned no connection")
			return
		}
		if err := sendN(wa, id, 0, 3); err != nil {
			viol("write-error", fmt.Sprintf("conn %d: %v", id, err))
			return
		}
		if r := recvN(rb, id, 0, 3, 5*time.Second); r != "" {
			viol("concurrent-open-lost-stream", fmt.Sprintf("connection id %d was opened by %d goroutines at once; reading through one of the returned connections: %s", id, n, r))
			return
		}
	}
	res.Seen("handles|concurrent-open|" + trunk)
	// (b) close and reopen on the receiving side, with and without a frame delivered before the close
	for v := 0; v < 4; v++ {
		id := uint32(2000 + v)
		ca, _ := ma.Open(multiplex.ConnID(id))
		cb, _ := mb.Open(multiplex.ConnID(id))
		other, _ := ma.Open(multiplex.ConnID(2100))
		otherB, _ := mb.Open(multiplex.ConnID(2100))
		seq := uint32(0)
		if v&1 != 0 { // traffic before the close
			sendN(ca, id, 0, 2)
			if r := recvN(cb, id, 0, 2, 5*time.Second); r != "" {
				viol("stream-damaged", r)
				return
			}
			seq = 2
		}
		cb.Close()
		cb2, _ := mb.Open(multiplex.ConnID(id))
		if v&2 != 0 { // a frame of another connection in between
			sendN(other, 2100, uint32(v), 1)
			recvN(otherB, 2100, uint32(v), 1, 5*time.Second)
		}
		if err := sendN(ca, id, seq, 3); err != nil {
			viol("write-error", err.Error())
			return
		}
		if r := recvN(cb2, id, seq, 3, 5*time.Second); r != "" {
			viol("reopened-conn-lost-stream", fmt.Sprintf("connection id %d closed and opened again on the receiving end (traffic before close: %v, other traffic in between: %v): %s", id, v&1 != 0, v&2 != 0, r))
			return
		}
		res.Seen(fmt.Sprintf("handles|reopen%d|%s", v, trunk))
	}
	// (c) a locally closed connection: frames still arriving for it are dropped and disturb nobody
	{
		xa, _ := ma.Open(3000)
		xb, _ := mb.Open(3000)
		ya, _ := ma.Open(3001)
		yb, _ := mb.Open(3001)
		sendN(xa, 3000, 0, 1)
		recvN(xb, 3000, 0, 1, 5*time.Second)
		xb.Close()
		done := make(chan error, 1)
		go func() { done <- sendN(xa, 3000, 1, 3*qlen) }()
		select {
		case err := <-done:
			if err != nil {
				viol("closed-conn-breaks-mux", fmt.Sprintf("writing to a connection the peer has closed locally failed: %v", err))
				return
			}
		case <-time.After(10 * time.Second):
			viol("stalled", "writes to a connection the peer closed locally block")
			return
		}
		if err := sendN(ya, 3001, 0, 5); err != nil {
			viol("closed-conn-breaks-mux", fmt.Sprintf("after %d frames for a locally closed connection the other connection cannot be written: %v", 3*qlen, err))
			return
		}
		if r := recvN(yb, 3001, 0, 5, 5*time.Second); r != "" {
			viol("closed-conn-breaks-mux", fmt.Sprintf("after %d frames for a locally closed connection the other connection is disturbed: %s", 3*qlen, r))
			return
		}
		res.Seen("handles|closed-conn-isolation|" + trunk)
	}
	// (d) a stale handle closed once more after the id was opened again must not take the new connection away
	for v := 0; v < 3; v++ {
		id := uint32(4000 + v)
		ca, _ := ma.Open(multiplex.ConnID(id))
		h1, _ := mb.Open(multiplex.ConnID(id))
		h1.Close()
		h2, _ := mb.Open(multiplex.ConnID(id))
		for k := 0; k <= v; k++ {
			h1.Close() // closing repeatedly is legal
		}
		if err := sendN(ca, id, 0, 4); err != nil {
			viol("write-error", err.Error())
			return
		}
		if r := recvN(h2, id, 0, 4, 5*time.Second); r != "" {
			viol("stale-close-lost-stream", fmt.Sprintf("connection id %d was closed, opened again, and the old handle closed %d more time(s): the new connection lost its stream: %s", id, v+1, r))
			return
		}
		res.Seen(fmt.Sprintf("handles|stale-close%d|%s", v, trunk))
	}
	// (f) a dial function that is kept and used again after its connection was closed gives a working connection
	{
		id := multiplex.ConnID(4500)
		ca, _ := ma.Open(id)
		dial := mb.Dialer(id)
		var seq uint32
		for round := 0; round < 3; round++ {
			cb, err := dial("", "")
			if err != nil || cb == nil {
				viol("open-error", fmt.Sprintf("dial %d through a kept dial function: %v", round+1, err))
				return
			}
			if err := sendN(ca, uint32(id), seq, 3); err != nil {
				viol("write-error", err.Error())
				return
			}
			if r := recvN(cb, uint32(id), seq, 3, 5*time.Second); r != "" {
				viol("redial-lost-stream", fmt.Sprintf("connection id %d dialled for the %d. time through the same dial function (closed in between): %s", id, round+1, r))
				return
			}
			seq += 3
			cb.Close()
		}
		res.Seen("handles|redial|" + trunk)
	}
	// (g) both ends write more than the trunk buffers hold while both ends open and close other connections:
	// the streams still complete
	if trunk == "socket" {
		a3, b3, err := trunkPair(trunk)
		if err != nil {
			return
		}
		m1 := multiplex.Multiplex(a3)
		m2 := multiplex.Multiplex(b3)
		c1, _ := m1.Open(5100)
		c2, _ := m2.Open(5100)
		const nmsg, size = 24, 96 << 10 // ~2.3 MB each way, far beyond the socket buffers
		stop := make(chan struct{})
		var churn sync.WaitGroup
		for _, m := range []multiplex.Mux{m1, m2} {
			churn.Add(1)
			go func(m multiplex.Mux) {
				defer churn.Done()
				for i := 0; ; i++ {
					select {
					case <-stop:
						return
					default:
					}
					if c, err := m.Open(multiplex.ConnID(5200 + i%7)); err == nil {
						c.Close()
					}
				}
			}(m)
		}
		errs := make(chan string, 4)
		for _, p := range [][2]net.Conn{{c1, c2}, {c2, c1}} {
			w, rd := p[0], p[1]
			go func() {
				for i := 0; i < nmsg; i++ {
					if _, err := w.Write(buildMsg(5100, 0, uint32(i), size)); err != nil {
						errs <- "write: " + err.Error()
						return
					}
				}
				errs <- ""
			}()
			go func() { errs <- recvN(rd, 5100, 0, nmsg, 40*time.Second) }()
		}
		bad := ""
		for i := 0; i < 4; i++ {
			select {
			case e := <-errs:
				if e != "" && bad == "" {
					bad = e
				}
			case <-time.After(60 * time.Second):
				if bad == "" {
					bad = "writers or readers still blocked after 60 s; goroutines:\n" + nriStacks()
				}
				i = 4
			}
		}
		close(stop)
		if bad != "" {
			viol("stalled", fmt.Sprintf("%d x %d bytes in each direction while both ends open and close other connections: %s", nmsg, size, bad))
		}
		// a multiplexer that is wedged may not even close: never wait for it without a bound
		cd := make(chan struct{})
		go func() { defer close(cd); m1.Close(); m2.Close(); churn.Wait() }()
		if rig.Await(cd, 5*time.Second, 20*time.Second) == "hang" {
			a3.Close()
			b3.Close()
			if bad == "" {
				viol("stalled", "closing the multiplexers after the transfer did not return")
			}
			return
		}
		if bad != "" {
			return
		}
		res.Seen("handles|traffic-with-churn")
	}
	// (h) blocked reading: a Mux created with WithBlockedRead demultiplexes nothing until it is unblocked, so
	// frames that arrive before its connections are opened are not lost — also for the second Mux built from
	// the same option list, after the first one was unblocked
	{
		opts := []multiplex.Option{multiplex.WithBlockedRead()}
		ok := true
		for k := 0; k < 2 && ok; k++ {
			a4, b4, err := trunkPair(trunk)
			if err != nil {
				return
			}
			sender := multiplex.Multiplex(a4)
			recv := multiplex.Multiplex(b4, opts...)
			ca, _ := sender.Open(5300)
			werr := make(chan error, 1)
			go func() { werr <- sendN(ca, 5300, 0, 3) }() // on a pipe trunk this blocks until the receiver reads
			time.Sleep(30 * time.Millisecond)             // the frames are on their way while nothing is open yet
			cb, _ := recv.Open(5300)
			recv.Unblock()
			r := recvN(cb, 5300, 0, 3, 5*time.Second)
			var we error
			select {
			case we = <-werr:
			case <-time.After(5 * time.Second):
				we = fmt.Errorf("writer still blocked")
			}
			recv.Unblock() // unblocking twice is harmless
			sender.Close()
			recv.Close()
			if r != "" || we != nil {
				viol("blocked-read-lost-frames", fmt.Sprintf("Mux #%d built with WithBlockedRead from one option list: frames sent before its connection was opened (and before Unblock): write error %v; %s", k+1, we, r))
				ok = false
			}
		}
		if ok {
			res.Seen("handles|blocked-read|" + trunk)
		}
	}
	// (e) a receiver that reads late but stays within its configured queue length loses nothing, whatever
	// that length is
	for _, ql := range []int{1, 3, 300, 1000} {
		a2, b2, err := trunkPair(trunk)
		if err != nil {
			return
		}
		m1 := multiplex.Multiplex(a2, multiplex.WithReadQueueLength(ql))
		m2 := multiplex.Multiplex(b2, multiplex.WithReadQueueLength(ql))
		ca, _ := m1.Open(5000)
		cb, _ := m2.Open(5000)
		n := ql - ql/10 // stay clear of the limit itself
		if n < 1 {
			n = 1
		}
		done := make(chan error, 1)
		go func() { done <- sendN(ca, 5000, 0, n) }()
		var werr error
		select {
		case werr = <-done:
		case <-time.After(20 * time.Second):
			werr = fmt.Errorf("writer blocked")
		}
		// only now does the receiver start reading
		r := ""
		if werr == nil {
			// let the frames reach the receiving multiplexer's queue before reading starts
			time.Sleep(20 * time.Millisecond)
			r = recvN(cb, 5000, 0, n, 10*time.Second)
		}
		m1.Close()
		m2.Close()
		if werr != nil || r != "" {
			viol("late-reader-within-queue-length", fmt.Sprintf("read queue length %d, %d frames written before the receiver started to read: write error %v; %s", ql, n, werr, r))
			return
		}
		res.Seen(fmt.Sprintf("handles|late-reader-q%d|%s", ql, trunk))
	}
}

func runC10(c *ev.ChildEnv, res *ev.Result) {
	rig.QuietLogs()
	g := rand.New(rand.NewPCG(uint64(c.Seed), uint64(c.Batch)+1000))
	hooks := installMuxHook(res)
	var rounds []c10Round
	nSmall := tierN(c.Tier, 24, 300) / c.Batches
	nBig := tierN(c.Tier, 4, 40) / c.Batches
	if nBig == 0 {
		nBig = 1
	}
	for i := 0; i < nSmall; i++ {
		rounds = append(rounds, c10Round{K: 1 + g.IntN(8), W: 1 + g.IntN(4), Qlen: []int{2, 8, 256}[g.IntN(3)],
			Trunk: []string{"socket", "pipe"}[g.IntN(2)], Msgs: []int{10, 25, 200}[g.IntN(3)], Sizes: []string{"small", "mixed"}[g.IntN(2)], Hook: hooks && g.IntN(3) != 0})
	}
	for i := 0; i < nBig; i++ {
		rounds = append(rounds, c10Round{K: 1 + g.IntN(2), W: 2 + g.IntN(2), Qlen: []int{4, 8, 256}[g.IntN(3)],
			Trunk: "socket", Msgs: 4, Sizes: "big", Hook: hooks && g.IntN(2) == 0})
	}
	for hi, trunk := range []string{"socket", "pipe"} {
		c.WAL("handles %s", trunk)
		res.Eval()
		c10Handles(g, res, trunk, fmt.Sprintf("b%d-h%d", c.Batch, hi))
	}
	for i, rd := range rounds {
		c.WAL("round %d %+v", i, rd)
		setMuxHookActive(rd.Hook)
		res.Eval()
		runC10Round(rd, g, res, fmt.Sprintf("b%d-r%d", c.Batch, i))
		if i < 2 {
			res.Sample(map[string]any{"round": rd, "observed": "every lane complete, in order, unmodified, isolated"})
		}
	}
	setMuxHookActive(false)
}

func init() {
	register(&Check{
		ID: "C10", Level: "exploration", MinNontriv: 10,
		Anchors: []string{"pkg/net/multiplex/mux.go", "pkg/net/multiplex/ttrpc.go", "pkg/net/conn.go"},
		Rule:    "rounds over two real Mux endpoints: K in 1..8 connection ids (incl. 2^31, 0xfffffffe), W in 1..4 writers per connection per direction in both directions at once, queue lengths {2,4,8,256}, trunks unix socketpair and net.Pipe, self-describing messages with payloads {0,1,7,4K, frame-1, frame, frame+1, 2*frame+3, random} and empty writes; harness-side credit keeps every receiver within the queue length; per-lane incremental stream parser (completeness, per-writer sequence, pattern, connection id), real-time order across writers, porcupine FIFO model on histories <= 100 ops; handle scenarios: concurrent Open/Dialer of one id, close and reopen, locally closed connection isolation, stale handle closed again after reopen, kept dial function used again after close, 2 x 2.3 MB both ways while both ends open and close other ids, late reader within queue lengths 1/3/300/1000; two muxes built from one WithBlockedRead option list with frames sent before Open and Unblock; distinct = distinct round configurations plus distinct writer interleavings observed in delivered streams",
		Assumptions: []string{
			"readers pass a buffer of one full frame (the multiplexer is frame-oriented)",
			"every connection id is opened on both ends before traffic starts (frames for ids not yet opened are dropped by design)",
		},
		Plan: func(tier string) []ev.ChildSpec {
			var s []ev.ChildSpec
			for i := 0; i < 4; i++ {
				s = append(s, ev.ChildSpec{GOMAXPROCS: cpuSettings[i].GOMAXPROCS, CPUs: cpuSettings[i].CPUs})
			}
			return s
		},
		Parallel: func(string) int { return 4 },
		Run:      runC10,
	})
}
