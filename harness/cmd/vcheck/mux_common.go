package main

// Shared pieces for C10/C11: self-describing messages, an incremental per-connection stream
// parser, trunk construction and credit-based flow control.

import (
	"encoding/binary"
	"fmt"
	"net"
	"runtime"
	"sync"

	nrinet "github.com/containerd/nri/pkg/net"
)

const (
	muxFrameMax = 10 + (4 << 20) // the multiplexer's maximum frame payload
	muxHdrLen   = 8
	msgHdrLen   = 14
)

func patByte(conn uint32, writer uint16, seq uint32, i int) byte {
	return byte(conn*131 + uint32(writer)*31 + seq*7 + uint32(i)*13 + 5)
}

// buildMsg builds a self-describing message [conn u32][writer u16][seq u32][len u32][pattern].
func buildMsg(conn uint32, writer uint16, seq uint32, n int) []byte {
	b := make([]byte, msgHdrLen+n)
	binary.BigEndian.PutUint32(b[0:], conn)
	binary.BigEndian.PutUint16(b[4:], writer)
	binary.BigEndian.PutUint32(b[6:], seq)
	binary.BigEndian.PutUint32(b[10:], uint32(n))
	for i := 0; i < n; i++ {
		b[msgHdrLen+i] = patByte(conn, writer, seq, i)
	}
	return b
}

// framesOf is the number of mux frames a Write of n bytes becomes.
func framesOf(n int) int {
	if n == 0 {
		return 1
	}
	return (n + muxFrameMax - 1) / muxFrameMax
}

type parsedMsg struct {
	Writer uint16
	Seq    uint32
	Len    uint32
}

// streamParser checks the byte stream of one logical connection incrementally.
type streamParser struct {
	conn    uint32
	hdr     []byte
	cur     parsedMsg
	inBody  bool
	bodyIdx int
	next    map[uint16]uint32
	msgs    []parsedMsg
	bytes   int64
	err     string
	onMsg   func(parsedMsg)
}

func newStreamParser(conn uint32) *streamParser {
	return &streamParser{conn: conn, next: map[uint16]uint32{}}
}

// feed consumes b; returns false once the stream has been found damaged.
func (p *streamParser) feed(b []byte) bool {
	if p.err != "" {
		return false
	}
	p.bytes += int64(len(b))
	for len(b) > 0 {
		if !p.inBody {
			need := msgHdrLen - len(p.hdr)
			take := min(need, len(b))
			p.hdr = append(p.hdr, b[:take]...)
			b = b[take:]
			if len(p.hdr) < msgHdrLen {
				return true
			}
			c := binary.BigEndian.Uint32(p.hdr[0:])
			p.cur = parsedMsg{Writer: binary.BigEndian.Uint16(p.hdr[4:]), Seq: binary.BigEndian.Uint32(p.hdr[6:]), Len: binary.BigEndian.Uint32(p.hdr[10:])}
			p.hdr = p.hdr[:0]
			if c != p.conn {
				p.err = fmt.Sprintf("message header names connection %d on the stream of connection %d (after %d messages): foreign or damaged data", c, p.conn, len(p.msgs))
				return false
			}
			if want := p.next[p.cur.Writer]; p.cur.Seq != want {
				kind := "gap"
				if p.cur.Seq < want {
					kind = "duplicate or reordered"
				}
				p.err = fmt.Sprintf("%s: writer %d message seq %d arrived where seq %d was expected", kind, p.cur.Writer, p.cur.Seq, want)
				return false
			}
			p.inBody, p.bodyIdx = true, 0
		}
		if p.inBody {
			left := int(p.cur.Len) - p.bodyIdx
			take := min(left, len(b))
			for i := 0; i < take; i++ {
				if b[i] != patByte(p.conn, p.cur.Writer, p.cur.Seq, p.bodyIdx+i) {
					p.err = fmt.Sprintf("payload byte %d of writer %d seq %d is 0x%02x, want 0x%02x: modified or mixed data", p.bodyIdx+i, p.cur.Writer, p.cur.Seq, b[i], patByte(p.conn, p.cur.Writer, p.cur.Seq, p.bodyIdx+i))
					return false
				}
			}
			p.bodyIdx += take
			b = b[take:]
			if p.bodyIdx == int(p.cur.Len) {
				p.inBody = false
				p.next[p.cur.Writer] = p.cur.Seq + 1
				p.msgs = append(p.msgs, p.cur)
				if p.onMsg != nil {
					p.onMsg(p.cur)
				}
			}
		}
	}
	return true
}

// partial reports whether the stream ends in the middle of a message.
func (p *streamParser) partial() bool { return p.inBody || len(p.hdr) > 0 }

// trunkPair returns the two ends of a trunk: kind "pipe" (net.Pipe) or "socket" (unix socketpair).
func trunkPair(kind string) (net.Conn, net.Conn, error) {
	if kind == "pipe" {
		a, b := net.Pipe()
		return a, b, nil
	}
	sp, err := nrinet.NewSocketPair()
	if err != nil {
		return nil, nil, err
	}
	a, err := sp.LocalConn()
	if err != nil {
		return nil, nil, err
	}
	b, err := sp.PeerConn()
	if err != nil {
		a.Close()
		return nil, nil, err
	}
	return a, b, nil
}

// credit is harness-side flow control: a writer never has more than max frames unconsumed.
type credit struct {
	mu   sync.Mutex
	cond *sync.Cond
	out  int
	max  int
	dead bool
}

func newCredit(max int) *credit {
	c := &credit{max: max}
	c.cond = sync.NewCond(&c.mu)
	return c
}

func (c *credit) acquire(n int) bool {
	c.mu.Lock()
	defer c.mu.Unlock()
	for c.out+n > c.max && !c.dead {
		c.cond.Wait()
	}
	if c.dead {
		return false
	}
	c.out += n
	return true
}

func (c *credit) release(n int) {
	c.mu.Lock()
	c.out -= n
	c.mu.Unlock()
	c.cond.Broadcast()
}

func (c *credit) kill() {
	c.mu.Lock()
	c.dead = true
	c.mu.Unlock()
	c.cond.Broadcast()
}

func allStacks() string {
	buf := make([]byte, 1<<20)
	n := runtime.Stack(buf, true)
	return string(buf[:n])
}
