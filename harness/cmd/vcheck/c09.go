package main

// C09 — synchronization delivers the runtime's complete state however it must be split.

import (
	"context"
	"encoding/json"
	"fmt"
	"hash/fnv"
	"math/rand/v2"
	"net"
	"os"
	"os/exec"
	"path/filepath"
	"sort"
	"strings"
	"sync"
	"sync/atomic"
	"time"

	"nriverif/internal/ev"
	"nriverif/internal/rig"

	"github.com/containerd/nri/pkg/adaptation"
	"github.com/containerd/nri/pkg/api"
	"github.com/containerd/nri/pkg/stub"
)

const c09Small = 64 << 10 // objects up to this size are "individually transmissible" without question

type c09Case struct {
	Name  string `json:"name"`
	Pods  []int  `json:"-"` // payload size per pod
	Ctrs  []int  `json:"-"`
	NPods int    `json:"pods"`
	NCtrs int    `json:"containers"`
	MaxO  int    `json:"max_object_bytes"`
	Total int    `json:"total_bytes"`
	Peer  string `json:"peer"` // stub | raw
}

func (c *c09Case) finish() {
	c.NPods, c.NCtrs = len(c.Pods), len(c.Ctrs)
	c.MaxO, c.Total = 0, 0
	for _, s := range append(append([]int(nil), c.Pods...), c.Ctrs...) {
		c.Total += s
		if s > c.MaxO {
			c.MaxO = s
		}
	}
}

// eightLargest: the chunk size at its documented minimum (eight objects per message) still fits when
// the eight largest objects fit one message together.
func (c *c09Case) eightLargest() int {
	all := append(append([]int(nil), c.Pods...), c.Ctrs...)
	sort.Sort(sort.Reverse(sort.IntSlice(all)))
	t := 0
	for i := 0; i < len(all) && i < 8; i++ {
		t += all[i] + 64
	}
	return t
}

func rep(n, size int) []int {
	o := make([]int, n)
	for i := range o {
		o[i] = size
	}
	return o
}

func c09Cases(g *rand.Rand, tier string) []*c09Case {
	var cs []*c09Case
	add := func(name string, pods, ctrs []int) {
		c := &c09Case{Name: name, Pods: pods, Ctrs: ctrs}
		c.finish()
		cs = append(cs, c)
	}
	uni := func(n, lo, hi int) []int {
		o := make([]int, n)
		for i := range o {
			o[i] = lo + g.IntN(hi-lo+1)
		}
		return o
	}
	// systematic shapes
	add("empty", nil, nil)
	add("pods-only-tiny", rep(50, 40), nil)
	add("ctrs-only-tiny", nil, rep(50, 40))
	add("tiny-2000x2000", rep(2000, 30), rep(2000, 30))
	add("one-pod-many-60k-ctrs", rep(1, 100), rep(100, 60<<10))
	add("many-60k-pods-one-ctr", rep(100, 60<<10), rep(1, 100))
	add("two-pods-many-60k-ctrs", rep(2, 100), rep(150, 60<<10))
	add("three-pods-64k-ctrs", rep(3, 64<<10-200), rep(130, 64<<10-200))
	add("few-pods-huge-ctrs", rep(2, 100), rep(20, 1<<20))
	add("huge-pods-few-ctrs", rep(20, 1<<20), rep(2, 100))
	add("one-object-just-under-limit", rep(1, 100), []int{4<<20 - 4096})
	add("one-object-over-limit", rep(1, 100), []int{4<<20 + 4096})
	add("seven-objects-too-big-together", rep(3, 100), rep(4, 1500<<10))
	for _, d := range []int{-2000, -300, -50, 0, 50, 300, 2000} {
		// total just under / over the limit with 64 objects of equal size
		per := (4<<20 + d) / 64
		add(fmt.Sprintf("boundary%+d", d), rep(32, per-90), rep(32, per-90))
	}
	add("uniform-1k-64k", uni(120, 1<<10, 64<<10), uni(200, 1<<10, 64<<10))
	add("nine-objects-480k", rep(4, 100), rep(5, 480<<10))
	// few large objects, total a little above the limit: the chunk size is forced down to (nearly) its minimum
	for _, pc := range [][2]int{{3, 6}, {4, 5}, {5, 4}, {5, 5}, {4, 6}, {6, 4}, {5, 6}, {6, 5}, {6, 6}, {6, 3}, {1, 10}, {10, 1}, {0, 10}, {10, 0}, {2, 9}, {7, 7}} {
		fs := []float64{1.03, 1.08}
		if tier == "thorough" {
			fs = []float64{1.005, 1.03, 1.06, 1.08, 1.10, 1.2, 1.5}
		}
		for _, f := range fs {
			per := int(f * float64(4<<20) / float64(pc[0]+pc[1]))
			add(fmt.Sprintf("few-large-%d+%d-x%.3f", pc[0], pc[1], f), rep(pc[0], per), rep(pc[1], per))
		}
	}
	// random shapes
	n := tierN(tier, 14, 400)
	for i := 0; i < n; i++ {
		switch g.IntN(6) {
		case 0:
			add("rnd-tiny", uni(g.IntN(3000), 10, 200), uni(g.IntN(6000), 10, 200))
		case 1:
			add("rnd-uniform", uni(g.IntN(150), 1<<10, 64<<10), uni(g.IntN(250), 1<<10, 64<<10))
		case 2:
			add("rnd-skewed-pods0", uni(g.IntN(3), 50, 500), uni(20+g.IntN(300), 20<<10, 64<<10))
		case 3:
			add("rnd-skewed-ctrs0", uni(20+g.IntN(300), 20<<10, 64<<10), uni(g.IntN(3), 50, 500))
		case 4:
			add("rnd-large", uni(g.IntN(6), 100, 2<<20), uni(g.IntN(12), 100, 2<<20))
		case 5:
			add("rnd-mixed", uni(g.IntN(40), 100, 300<<10), uni(g.IntN(80), 100, 300<<10))
		}
	}
	if tier == "thorough" {
		add("tiny-20000", rep(8000, 20), rep(12000, 20))
	}
	return cs
}

func payload(n int) string { return strings.Repeat("x", max(n, 0)) }

func c09State(cs *c09Case, tag string) ([]*api.PodSandbox, []*api.Container) {
	var pods []*api.PodSandbox
	var ctrs []*api.Container
	for i, s := range cs.Pods {
		pods = append(pods, &api.PodSandbox{Id: fmt.Sprintf("%s-p%d", tag, i), Name: "p", Annotations: map[string]string{"pad": payload(s - 40)}})
	}
	for i, s := range cs.Ctrs {
		ctrs = append(ctrs, &api.Container{Id: fmt.Sprintf("%s-c%d", tag, i), Name: "c", Env: []string{"PAD=" + payload(s-40)}})
	}
	return pods, ctrs
}

func runC09Case(dir string, cs *c09Case, tag string, res *ev.Result) {
	what := cs
	pods, ctrs := c09State(cs, tag)
	small := cs.MaxO <= c09Small || cs.eightLargest() <= 4<<20-(64<<10)
	rt, err := rig.NewRuntime(dir)
	if err != nil {
		res.Note("runtime: %v", err)
		return
	}
	type syncRes struct {
		upd []*api.ContainerUpdate
		err error
	}
	syncDone := make(chan syncRes, 4)
	rt.SyncFn = func(ctx context.Context, cb adaptation.SyncCB) error {
		u, err := cb(ctx, pods, ctrs)
		syncDone <- syncRes{u, err}
		return err
	}
	if err := rt.Start(); err != nil {
		res.Note("start: %v", err)
		return
	}
	defer rt.Stop()
	// Start() itself runs the sync function once for pre-installed plugins (there are none here)
	for len(syncDone) > 0 {
		<-syncDone
	}
	wantUpd := []*api.ContainerUpdate{{ContainerId: tag + "-upd1"}, {ContainerId: tag + "-upd2"}}
	wantUpd[0].SetLinuxCPUShares(123)

	var mu sync.Mutex
	var gotPods, gotCtrs []string
	var handlerCalls, events atomic.Int32
	var closer func()
	var chunkLog func() []rig.SyncChunk
	switch cs.Peer {
	case "stub":
		p := rig.NewPlugin("sync", "10", 0, rig.Handlers{
			Synchronize: func(_ context.Context, ps []*api.PodSandbox, cc []*api.Container) ([]*api.ContainerUpdate, error) {
				handlerCalls.Add(1)
				mu.Lock()
				for _, x := range ps {
					gotPods = append(gotPods, x.Id)
				}
				for _, x := range cc {
					gotCtrs = append(gotCtrs, x.Id)
				}
				mu.Unlock()
				return cloneUpdates(wantUpd), nil
			},
			Any: func(api.Event, *api.PodSandbox, *api.Container) { events.Add(1) },
		})
		if err := p.Connect(rt.Sock); err != nil {
			res.Note("%s: connect: %v", tag, err)
			return
		}
		closer = p.StopStub
	default:
		p := rig.NewRawPlugin("sync", "10", 0)
		p.OnSynchronize = func(_ context.Context, req *api.SynchronizeRequest) (*api.SynchronizeResponse, error) {
			mu.Lock()
			for _, x := range req.Pods {
				gotPods = append(gotPods, x.Id)
			}
			for _, x := range req.Containers {
				gotCtrs = append(gotCtrs, x.Id)
			}
			mu.Unlock()
			if req.More {
				return &api.SynchronizeResponse{More: true}, nil
			}
			handlerCalls.Add(1)
			return &api.SynchronizeResponse{Update: cloneUpdates(wantUpd)}, nil
		}
		p.Any = func(kind string) {
			if kind != "Synchronize" {
				events.Add(1)
			}
		}
		if err := p.Dial(rt.Sock, nil); err != nil {
			res.Note("%s: dial: %v", tag, err)
			return
		}
		if err := p.Register(10 * time.Second); err != nil {
			res.Note("%s: register: %v", tag, err)
			return
		}
		closer = p.Close
		chunkLog = p.ChunkLog
	}
	defer closer()

	var sr syncRes
	select {
	case sr = <-syncDone:
	case <-time.After(100 * time.Second):
		res.Violate("C09/hang", "synchronization neither completed nor failed within 100 s (request timeout is 30 s); goroutines:\n"+nriStacks(), what)
		return
	}
	// let activation (or teardown) settle, then probe with an event
	probe := func() int32 {
		before := events.Load()
		for i := 0; i < 3; i++ {
			b := rt.A.BlockPluginSync()
			rt.A.RunPodSandbox(context.Background(), &api.StateChangeEvent{Pod: &api.PodSandbox{Id: fmt.Sprintf("%s-probe%d", tag, i)}})
			b.Unblock()
			if events.Load() > before {
				break
			}
			time.Sleep(5 * time.Millisecond)
		}
		return events.Load() - before
	}
	mu.Lock()
	gp, gc := append([]string(nil), gotPods...), append([]string(nil), gotCtrs...)
	mu.Unlock()
	ids := func(n int, kind string) []string {
		o := make([]string, n)
		for i := range o {
			o[i] = fmt.Sprintf("%s-%s%d", tag, kind, i)
		}
		return o
	}
	exact := strings.Join(gp, ",") == strings.Join(ids(len(pods), "p"), ",") && strings.Join(gc, ",") == strings.Join(ids(len(ctrs), "c"), ",")
	describe := func() string {
		return fmt.Sprintf("handler calls=%d, pods delivered %d/%d, containers delivered %d/%d", handlerCalls.Load(), len(gp), len(pods), len(gc), len(ctrs))
	}
	if chunkLog != nil {
		cl := chunkLog()
		empties := 0
		for i, ch := range cl {
			if ch.Pods+ch.Containers == 0 && ch.More {
				empties++
				if empties >= 3 {
					res.Violate("C09/no-progress", fmt.Sprintf("three consecutive synchronization messages carried no object but announced more (message %d of %d): the split makes no progress", i, len(cl)), what)
					break
				}
			} else {
				empties = 0
			}
		}
		res.Max("max_sync_messages", int64(len(cl)))
		if len(cl) > 1 {
			res.Count("split_synchronizations", 1)
		}
	}
	if sr.err == nil {
		// success: exactly-once, exact, in order; updates reach the runtime; plugin is active
		if handlerCalls.Load() != 1 {
			res.Violate("C09/handler-count", "synchronization succeeded but the handler ran "+fmt.Sprint(handlerCalls.Load())+" times", what)
		}
		if !exact {
			res.Violate("C09/state-differs", "synchronization succeeded but the plugin did not receive exactly the runtime's pods and containers, each once, in order: "+describe(), what)
		}
		if !updatesEqual(sr.upd, wantUpd) {
			res.Violate("C09/updates-lost", fmt.Sprintf("the updates returned by the synchronization handler did not reach the runtime unchanged: got %v", sr.upd), what)
		}
		if probe() == 0 {
			res.Violate("C09/not-activated", "synchronization succeeded but the plugin does not receive events afterwards", what)
		}
		res.Seen(fmt.Sprintf("ok|%s|%s|split%v", cs.Name, cs.Peer, cs.Total > 4<<20))
		return
	}
	// failure
	if small {
		res.Violate("C09/failed-small-state", fmt.Sprintf("every object is at most %d bytes or the eight largest objects fit one message together (%d bytes), yet synchronization failed: %v (%s)", c09Small, cs.eightLargest(), sr.err, describe()), what)
		return
	}
	if cs.Peer == "stub" && handlerCalls.Load() != 0 && !exact {
		res.Violate("C09/partial-state-delivered", "synchronization failed, yet the handler was invoked with a partial state: "+describe(), what)
	}
	if n := probe(); n != 0 {
		res.Violate("C09/activated-after-failure", fmt.Sprintf("synchronization failed (%v) but the plugin received %d events afterwards", sr.err, n), what)
	}
	res.Seen(fmt.Sprintf("clean-failure|%s|%s", cs.Name, cs.Peer))
	res.Count("clean_failures_large_objects", 1)
}

// noSyncPlugin implements one event handler and nothing else: no Synchronize, no Configure.
type noSyncPlugin struct{ events atomic.Int32 }

func (p *noSyncPlugin) RunPodSandbox(context.Context, *api.PodSandbox) error {
	p.events.Add(1)
	return nil
}

// c09NoHandler: a plugin that has no Synchronize handler registers against a state that must be split: it has
// nothing to receive, but registration must complete and the plugin be active.
func c09NoHandler(dir string, res *ev.Result, tag string, cs *c09Case) {
	what := map[string]any{"scenario": "plugin without a Synchronize handler", "state": cs}
	rt, err := rig.NewRuntime(dir)
	if err != nil {
		res.Note("runtime: %v", err)
		return
	}
	rt.SetState(c09State(cs, tag))
	done := make(chan error, 4)
	rt.SyncDone = func(_ []*api.ContainerUpdate, err error) { done <- err }
	if err := rt.Start(); err != nil {
		res.Note("start: %v", err)
		return
	}
	defer rt.Stop()
	for len(done) > 0 {
		<-done
	}
	p := &noSyncPlugin{}
	st, err := stub.New(p, stub.WithPluginName("nosync"), stub.WithPluginIdx("10"), stub.WithSocketPath(rt.Sock), stub.WithOnClose(func() {}))
	if err != nil {
		res.Note("stub: %v", err)
		return
	}
	if err := st.Start(context.Background()); err != nil {
		res.Note("%s: start: %v", tag, err)
		res.Inconcl()
		return
	}
	defer st.Stop()
	select {
	case err := <-done:
		if err != nil {
			res.Violate("C09/failed-small-state", fmt.Sprintf("a plugin without a Synchronize handler could not be synchronized with a state of %d bytes in objects of at most %d bytes: %v", cs.Total, cs.MaxO, err), what)
			return
		}
	case <-time.After(100 * time.Second):
		res.Violate("C09/hang", "synchronization neither completed nor failed within 100 s; goroutines:\n"+nriStacks(), what)
		return
	}
	for i := 0; i < 3 && p.events.Load() == 0; i++ {
		b := rt.A.BlockPluginSync()
		rt.A.RunPodSandbox(context.Background(), &api.StateChangeEvent{Pod: &api.PodSandbox{Id: fmt.Sprintf("%s-probe%d", tag, i)}})
		b.Unblock()
		time.Sleep(5 * time.Millisecond)
	}
	if p.events.Load() == 0 {
		res.Violate("C09/not-activated", "synchronization succeeded but the plugin (no Synchronize handler) does not receive events afterwards", what)
	}
	res.Seen(fmt.Sprintf("no-handler|split%v", cs.Total > 4<<20))
}

// c09UpdateFromHandler: the plugin's Synchronize handler itself issues an unsolicited update before it
// returns (state split or not): the synchronization still completes with the exact state, and the plugin is active.
func c09UpdateFromHandler(dir string, res *ev.Result, tag string, cs *c09Case) {
	what := map[string]any{"scenario": "Synchronize handler issues an unsolicited update", "state": cs}
	rt, err := rig.NewRuntime(dir)
	if err != nil {
		res.Note("runtime: %v", err)
		return
	}
	pods, ctrs := c09State(cs, tag)
	rt.SetState(pods, ctrs)
	done := make(chan error, 8)
	rt.SyncDone = func(_ []*api.ContainerUpdate, err error) { done <- err }
	var updates atomic.Int32
	rt.UpdateFn = func(_ context.Context, u []*api.ContainerUpdate) ([]*api.ContainerUpdate, error) {
		updates.Add(1)
		return nil, nil
	}
	if err := rt.Start(); err != nil {
		res.Note("start: %v", err)
		return
	}
	defer rt.Stop()
	for len(done) > 0 {
		<-done
	}
	var gotP, gotC atomic.Int32
	var uerr atomic.Value
	var p *rig.Plugin
	p = rig.NewPlugin("updsync", "10", 0, rig.Handlers{
		Synchronize: func(_ context.Context, ps []*api.PodSandbox, cc []*api.Container) ([]*api.ContainerUpdate, error) {
			gotP.Store(int32(len(ps)))
			gotC.Store(int32(len(cc)))
			if _, err := p.Stub.UpdateContainers([]*api.ContainerUpdate{{ContainerId: tag + "-from-sync"}}); err != nil {
				uerr.Store(err)
			}
			return nil, nil
		},
	})
	if err := p.Connect(rt.Sock); err != nil {
		res.Note("%s: connect: %v", tag, err)
		res.Inconcl()
		return
	}
	defer p.StopStub()
	select {
	case err := <-done:
		if err != nil {
			res.Violate("C09/failed-small-state", fmt.Sprintf("a plugin whose Synchronize handler issues an unsolicited update could not be synchronized (state of %d bytes, objects of at most %d): %v", cs.Total, cs.MaxO, err), what)
			return
		}
	case <-time.After(100 * time.Second):
		res.Violate("C09/hang", "synchronization of a plugin whose handler issues an unsolicited update neither completed nor failed within 100 s; goroutines:\n"+nriStacks(), what)
		return
	}
	if int(gotP.Load()) != len(pods) || int(gotC.Load()) != len(ctrs) || updates.Load() != 1 || uerr.Load() != nil {
		res.Violate("C09/state-differs", fmt.Sprintf("handler received %d/%d pods, %d/%d containers; its own update reached the runtime %d times (error %v)", gotP.Load(), len(pods), gotC.Load(), len(ctrs), updates.Load(), uerr.Load()), what)
	}
	res.Seen(fmt.Sprintf("update-from-handler|split%v", cs.Total > 4<<20))
}

// c09StopsReading: a peer answers its configuration and then stops reading its socket; the state is larger
// than the socket buffers, so the runtime's synchronization message cannot be sent. Registration fails
// cleanly within the bound, and a well-behaved plugin registers afterwards.
func c09StopsReading(dir string, res *ev.Result, tag string) {
	const reqTimeout = 700 * time.Millisecond
	adaptation.SetPluginRequestTimeout(reqTimeout)
	defer adaptation.SetPluginRequestTimeout(30 * time.Second)
	what := map[string]any{"scenario": "peer stops reading after its configuration; 3 MB state", "request_timeout_ms": reqTimeout.Milliseconds()}
	rt, err := rig.NewRuntime(dir)
	if err != nil {
		res.Note("runtime: %v", err)
		return
	}
	cs := &c09Case{Pods: rep(2, 100), Ctrs: rep(50, 60<<10)}
	rt.SetState(c09State(cs, tag))
	done := make(chan error, 8)
	rt.SyncDone = func(_ []*api.ContainerUpdate, err error) { done <- err }
	if err := rt.Start(); err != nil {
		res.Note("start: %v", err)
		return
	}
	defer rt.Stop()
	for len(done) > 0 {
		<-done
	}
	rp := rig.NewRawPlugin("deaf", "10", 0)
	var cut *rig.CutConn
	rp.OnConfigure = func(context.Context, *api.ConfigureRequest) (*api.ConfigureResponse, error) {
		cut.StallReads()
		return &api.ConfigureResponse{}, nil
	}
	if err := rp.Dial(rt.Sock, func(c net.Conn) net.Conn { cut = rig.NewCutConn(c); return cut }); err != nil {
		res.Note("%s: dial: %v", tag, err)
		return
	}
	defer rp.Close()
	go rp.Register(5 * time.Second)
	select {
	case err := <-done:
		if err == nil {
			res.Note("%s: the synchronization of a peer that does not read succeeded (state fitted the socket buffers?)", tag)
			res.Inconcl()
			return
		}
	case <-time.After(15*time.Second + 20*reqTimeout):
		res.Violate("C09/hang", fmt.Sprintf("the synchronization of a peer that stopped reading neither completed nor failed (request timeout %v); goroutines:\n%s", reqTimeout, nriStacks()), what)
		return
	}
	var events atomic.Int32
	good := rig.NewPlugin("good", "20", 0, rig.Handlers{Any: func(api.Event, *api.PodSandbox, *api.Container) { events.Add(1) }})
	d := make(chan struct{})
	var cerr error
	go func() { defer close(d); cerr = good.Connect(rt.Sock) }()
	if rig.Await(d, 5*time.Second, 30*time.Second) == "hang" {
		res.Violate("C09/hang", "after a peer that stopped reading was dropped during its synchronization, the next plugin cannot register; goroutines:\n"+nriStacks(), what)
		return
	}
	defer good.StopStub()
	if cerr != nil || !good.WaitSynced(20*time.Second) {
		res.Violate("C09/not-activated", fmt.Sprintf("a well-behaved plugin after the dropped one did not get synchronized: %v", cerr), what)
		return
	}
	res.Seen("peer-stops-reading-before-sync")
}

// c09Preinstalled: plugins launched by the runtime itself are synchronized during Start, one after the
// other, with a state that has to be split; each must receive the complete state and the updates of
// every one of them must reach the runtime.
func c09Preinstalled(dir string, res *ev.Result, tag string, names []string, cs *c09Case) {
	what := map[string]any{"scenario": "pre-installed plugins synchronized at start", "plugins": names, "state": cs}
	probe := filepath.Join(dir, "probe")
	build := exec.Command("go", "build", "-tags", "verif", "-o", probe, "./cmd/probe")
	build.Dir = filepath.Join(ev.VerifDir, "harness")
	if out, err := build.CombinedOutput(); err != nil {
		res.Note("building the probe plugin failed: %v %s", err, out)
		return
	}
	root := filepath.Join(dir, "pre-"+tag)
	plugins, reports := filepath.Join(root, "plugins"), filepath.Join(root, "reports")
	os.MkdirAll(plugins, 0o755)
	os.MkdirAll(reports, 0o755)
	for _, n := range names {
		if err := os.Link(probe, filepath.Join(plugins, n)); err != nil {
			res.Note("link: %v", err)
			return
		}
	}
	rt, err := rig.NewRuntime(root, rig.WithAdaptationOptions(adaptation.WithPluginPath(plugins)))
	if err != nil {
		res.Note("runtime: %v", err)
		return
	}
	pods, ctrs := c09State(cs, tag)
	rt.SetState(pods, ctrs)
	h := fnv.New64a()
	for _, p := range pods {
		fmt.Fprintf(h, "p:%s;", p.GetId())
	}
	for _, c := range ctrs {
		fmt.Fprintf(h, "c:%s;", c.GetId())
	}
	wantHash := fmt.Sprintf("%x", h.Sum64())
	var mu sync.Mutex
	var got []string
	var syncErr error
	calls := 0
	rt.SyncDone = func(u []*api.ContainerUpdate, err error) {
		mu.Lock()
		defer mu.Unlock()
		calls++
		syncErr = err
		for _, x := range u {
			got = append(got, x.GetContainerId())
		}
	}
	d := make(chan struct{})
	var serr error
	go func() { defer close(d); serr = rt.Start() }()
	if rig.Await(d, 30*time.Second, 120*time.Second) == "hang" {
		res.Violate("C09/hang", "Start with pre-installed plugins and a split state did not return; goroutines:\n"+nriStacks(), what)
		return
	}
	defer rt.Stop()
	if serr != nil {
		res.Violate("C09/preinstalled-start-failed", fmt.Sprintf("Start failed: %v", serr), what)
		return
	}
	mu.Lock()
	defer mu.Unlock()
	if calls != 1 || syncErr != nil {
		res.Note("%s: synchronization function ran %d times, error %v", tag, calls, syncErr)
		res.Inconcl()
		return
	}
	var want []string
	for _, n := range names {
		want = append(want, "syncupd-"+n)
		files, _ := filepath.Glob(filepath.Join(reports, "syncstate."+n+".*"))
		if len(files) != 1 {
			res.Violate("C09/preinstalled-not-synchronized", fmt.Sprintf("pre-installed plugin %s: %d synchronization reports, want 1", n, len(files)), what)
			continue
		}
		var st struct {
			Pods, Containers int
			Idhash           string
		}
		b, _ := os.ReadFile(files[0])
		json.Unmarshal(b, &st)
		if st.Pods != len(pods) || st.Containers != len(ctrs) || st.Idhash != wantHash {
			res.Violate("C09/state-differs", fmt.Sprintf("pre-installed plugin %s received %d pods and %d containers (id hash %s), the runtime supplied %d and %d (id hash %s)", n, st.Pods, st.Containers, st.Idhash, len(pods), len(ctrs), wantHash), what)
		}
	}
	sort.Strings(got)
	sort.Strings(want)
	if strings.Join(got, ",") != strings.Join(want, ",") {
		res.Violate("C09/updates-lost", fmt.Sprintf("updates returned by the synchronization handlers of the pre-installed plugins that reached the runtime: %v, want one per plugin: %v", got, want), what)
	}
	res.Seen(fmt.Sprintf("preinstalled|%d|split%v", len(names), cs.Total > 4<<20))
}

func runC09(c *ev.ChildEnv, res *ev.Result) {
	rig.QuietLogs()
	adaptation.SetPluginRequestTimeout(30 * time.Second)
	adaptation.SetPluginRegistrationTimeout(30 * time.Second)
	if c.Batch%3 == 2 {
		for i, cs := range []*c09Case{{Name: "update-from-handler-split", Pods: rep(3, 200), Ctrs: rep(110, 60<<10)}, {Name: "update-from-handler-small", Pods: rep(3, 200), Ctrs: rep(4, 100)}} {
			cs.finish()
			c.WAL("update from handler %d", i)
			res.Eval()
			d := fmt.Sprintf("%s/ufh%d", c.Dir, i)
			mkdirAll(d)
			c09UpdateFromHandler(d, res, fmt.Sprintf("ufh%d", i), cs)
		}
		c.WAL("stops reading")
		res.Eval()
		d := c.Dir + "/deaf"
		mkdirAll(d)
		c09StopsReading(d, res, "deaf")
	}
	if c.Batch%3 == 1 {
		for i, cs := range []*c09Case{{Name: "no-handler-split", Pods: rep(3, 200), Ctrs: rep(150, 60<<10)}, {Name: "no-handler-small", Pods: rep(3, 200), Ctrs: rep(4, 100)}} {
			cs.finish()
			c.WAL("no-handler %d", i)
			res.Eval()
			d := fmt.Sprintf("%s/nh%d", c.Dir, i)
			mkdirAll(d)
			c09NoHandler(d, res, fmt.Sprintf("nh%d", i), cs)
		}
	}
	if c.Batch%3 == 0 {
		big := &c09Case{Name: "preinstalled-split", Pods: rep(3, 200), Ctrs: rep(100, 60<<10)}
		big.finish()
		small := &c09Case{Name: "preinstalled-small", Pods: rep(2, 100), Ctrs: rep(5, 100)}
		small.finish()
		for i, pc := range []struct {
			names []string
			cs    *c09Case
		}{{[]string{"10-a", "20-b", "30-c"}, big}, {[]string{"05-x", "50-y"}, small}, {[]string{"10-only"}, big}} {
			c.WAL("preinstalled %d", i)
			res.Eval()
			c09Preinstalled(c.Dir, res, fmt.Sprintf("pi%d", i), pc.names, pc.cs)
		}
	}
	g := rand.New(rand.NewPCG(uint64(c.Seed), 900)) // same list in every child
	cases := c09Cases(g, c.Tier)
	for n := 4; n <= 7; n++ {
		if n%c.Batches == c.Batch {
			tag := fmt.Sprintf("rs%d", n)
			c.WAL("resync %s", tag)
			dir := fmt.Sprintf("%s/%s", c.Dir, tag)
			mkdirAll(dir)
			res.Eval()
			c09Resync(dir, res, tag, n)
		}
	}
	// calibrate: how long does the split synchronization of the large state take here
	var calib time.Duration
	{
		dir := fmt.Sprintf("%s/calib", c.Dir)
		mkdirAll(dir)
		big := &c09Case{Name: "calibration", Pods: rep(40, 60<<10), Ctrs: rep(360, 60<<10), Peer: "stub"}
		big.finish()
		t0 := time.Now()
		runC09Case(dir, big, "cal", res)
		calib = time.Since(t0)
		res.Max("max_calibration_ms", calib.Milliseconds())
	}
	for di, frac := range []float64{0.2, 0.35, 0.5, 0.65, 0.8, 0.95} {
		d := time.Duration(float64(calib) * frac)
		if di%c.Batches == c.Batch || c.Batches > 6 {
			tag := fmt.Sprintf("lh%d", di)
			c.WAL("late handler %s", tag)
			dir := fmt.Sprintf("%s/%s", c.Dir, tag)
			mkdirAll(dir)
			res.Eval()
			c09LateHandler(dir, res, tag, d)
		}
	}
	k := 0
	for i, cs := range cases {
		for _, peer := range []string{"stub", "raw"} {
			k++
			if k%c.Batches != c.Batch {
				continue
			}
			cc := *cs
			cc.Peer = peer
			tag := fmt.Sprintf("s%d%s", i, peer[:1])
			c.WAL("case %s %s pods=%d ctrs=%d max=%d total=%d", tag, cs.Name, cs.NPods, cs.NCtrs, cs.MaxO, cs.Total)
			dir := fmt.Sprintf("%s/%s", c.Dir, tag)
			mkdirAll(dir)
			res.Eval()
			runC09Case(dir, &cc, tag, res)
			if i < 2 {
				res.Sample(cc)
			}
		}
	}
}

func init() {
	register(&Check{
		ID: "C09", Level: "exploration", MinNontriv: 10,
		Anchors: []string{"pkg/adaptation/plugin.go", "pkg/stub/stub.go", "pkg/adaptation/adaptation.go"},
		Rule:    "states of 0 to 20000 pods/containers with size distributions: all tiny, uniform 1-64 KiB, one pod + many 60 KiB containers (and the mirror), few pods + 1 MiB containers (and the mirror), one object just under / over the 4 MiB limit, totals within +-2000 bytes of the limit, random skewed/large/mixed; each against a stub plugin (reassembled handler arguments) and a raw protocol peer (per-message chunk log); oracle: objects <= 64 KiB must synchronize exactly once with the exact ordered state, updates reaching the runtime, plugin active afterwards; larger objects may instead fail cleanly (callback error, plugin never receives an event); never a panic, partial state, empty-chunk loop or hang; a few-large grid (16 pod/container splits x totals 1.03-1.08 x limit, thorough 7 factors); must-succeed also when the eight largest objects fit one message; three probe plugins launched by the runtime synchronized at Start with a split state (state hash and returned updates); a plugin type without a Synchronize handler against a split state; a peer that answers Configure and then stops reading, with a 3 MB state and a 700 ms request timeout (clean failure within the bound, the next plugin registers); a plugin whose Synchronize handler issues an unsolicited update (split and small state); distinct = distinct (shape, peer, outcome)",
		Assumptions: []string{
			"'individually transmissible' is taken as <= 64 KiB per object for the must-succeed tier; for larger objects either exact delivery or a clean failure is accepted",
			"request timeout is 30 s so that the largest generated state (about 30 MB) can be transmitted on a loaded machine",
		},
		Plan:     func(tier string) []ev.ChildSpec { return make([]ev.ChildSpec, tierN(tier, 6, 12)) },
		Parallel: func(string) int { return 6 },
		Watchdog: func(tier string) time.Duration {
			if tier == "thorough" {
				return 50 * time.Minute
			}
			return 8 * time.Minute
		},
		Run: runC09,
	})
}

// c09Resync: a split synchronization is aborted after the plugin accepted some chunks (the last object
// cannot be transmitted); the runtime's state then changes and the SAME stub instance registers again
// (its OnClose does not call Stop). The handler must see exactly the new state.
func c09Resync(dir string, res *ev.Result, tag string, nbig int) {
	what := map[string]any{"scenario": "resync-after-aborted-split", "tag": tag, "objects_400k": nbig}
	mk := func(withHuge bool) ([]*api.PodSandbox, []*api.Container) {
		cs := &c09Case{Pods: rep(nbig, 400<<10), Ctrs: rep(nbig, 400<<10)}
		if withHuge {
			cs.Ctrs = append(cs.Ctrs, 5<<20)
		}
		return c09State(cs, tag)
	}
	var stMu sync.Mutex
	pods, ctrs := mk(true)
	rt, err := rig.NewRuntime(dir)
	if err != nil {
		return
	}
	type syncRes struct{ err error }
	syncDone := make(chan syncRes, 4)
	rt.SyncFn = func(ctx context.Context, cb adaptation.SyncCB) error {
		stMu.Lock()
		p, c := pods, ctrs
		stMu.Unlock()
		_, err := cb(ctx, p, c)
		syncDone <- syncRes{err}
		return err
	}
	if rt.Start() != nil {
		return
	}
	defer rt.Stop()
	for len(syncDone) > 0 {
		<-syncDone
	}
	var mu sync.Mutex
	var calls [][2][]string
	p := rig.NewPlugin("resync", "10", 0, rig.Handlers{
		Synchronize: func(_ context.Context, ps []*api.PodSandbox, cc []*api.Container) ([]*api.ContainerUpdate, error) {
			var a, b []string
			for _, x := range ps {
				a = append(a, x.Id)
			}
			for _, x := range cc {
				b = append(b, x.Id)
			}
			mu.Lock()
			calls = append(calls, [2][]string{a, b})
			mu.Unlock()
			return nil, nil
		},
	})
	if err := p.Connect(rt.Sock); err != nil {
		res.Note("%s: connect: %v", tag, err)
		return
	}
	defer p.StopStub()
	var first syncRes
	select {
	case first = <-syncDone:
	case <-time.After(100 * time.Second):
		res.Violate("C09/hang", "synchronization neither completed nor failed within 100 s; goroutines:\n"+nriStacks(), what)
		return
	}
	if first.err == nil {
		res.Note("%s: the oversized state unexpectedly synchronized", tag)
		return
	}
	// the runtime dropped the plugin; wait for the stub to notice, then change the state and register again
	select {
	case <-p.Closed:
	case <-time.After(20 * time.Second):
		res.Note("%s: stub did not notice the dropped connection", tag)
		return
	}
	np, nc := mk(false)
	stMu.Lock()
	pods, ctrs = np, nc
	stMu.Unlock()
	mu.Lock()
	calls = nil
	mu.Unlock()
	if err := p.Restart(); err != nil {
		res.Violate("C09/restart-failed", fmt.Sprintf("the stub could not be started again after the failed synchronization: %v", err), what)
		return
	}
	var second syncRes
	select {
	case second = <-syncDone:
	case <-time.After(100 * time.Second):
		res.Violate("C09/hang", "second synchronization neither completed nor failed within 100 s", what)
		return
	}
	mu.Lock()
	defer mu.Unlock()
	var wantP, wantC []string
	for _, x := range np {
		wantP = append(wantP, x.Id)
	}
	for _, x := range nc {
		wantC = append(wantC, x.Id)
	}
	if second.err != nil || len(calls) != 1 || strings.Join(calls[0][0], ",") != strings.Join(wantP, ",") || strings.Join(calls[0][1], ",") != strings.Join(wantC, ",") {
		got := "none"
		if len(calls) > 0 {
			got = fmt.Sprintf("%d pods %v, %d containers %v", len(calls[0][0]), calls[0][0], len(calls[0][1]), calls[0][1])
		}
		res.Violate("C09/stale-state-after-aborted-split", fmt.Sprintf("after an aborted split synchronization the re-registered plugin did not receive exactly the runtime's current state (%d pods, %d containers): err=%v handler calls=%d got %s", len(wantP), len(wantC), second.err, len(calls), got), what)
		return
	}
	res.Seen(fmt.Sprintf("resync-after-aborted-split|%d", nbig))
}

// c09LateHandler: the Synchronize handler of a first session is still running when the runtime gives up
// on it (request timeout) and drops the connection; the same stub registers again and is sent a split
// state; the old handler returns while the new chunks are being collected. The new session's handler
// must still receive exactly the runtime's current state.
func c09LateHandler(dir string, res *ev.Result, tag string, delay time.Duration) {
	what := map[string]any{"scenario": "late-handler-of-earlier-session", "tag": tag, "old_handler_returns_after_ms": delay.Milliseconds()}
	adaptation.SetPluginRequestTimeout(time.Second)
	defer adaptation.SetPluginRequestTimeout(30 * time.Second)
	var stMu sync.Mutex
	small := &c09Case{Pods: rep(3, 100), Ctrs: rep(3, 100)}
	pods, ctrs := c09State(small, tag+"a")
	rt, err := rig.NewRuntime(dir)
	if err != nil {
		return
	}
	syncStart := make(chan struct{}, 8)
	syncDone := make(chan error, 8)
	rt.SyncFn = func(ctx context.Context, cb adaptation.SyncCB) error {
		stMu.Lock()
		p, c := pods, ctrs
		stMu.Unlock()
		syncStart <- struct{}{}
		_, err := cb(ctx, p, c)
		syncDone <- err
		return err
	}
	if rt.Start() != nil {
		return
	}
	defer rt.Stop()
	for len(syncDone) > 0 {
		<-syncDone
		<-syncStart
	}
	release := make(chan struct{})
	var mu sync.Mutex
	var calls [][2][]string
	ncall := 0
	p := rig.NewPlugin("late", "10", 0, rig.Handlers{
		Synchronize: func(_ context.Context, ps []*api.PodSandbox, cc []*api.Container) ([]*api.ContainerUpdate, error) {
			mu.Lock()
			ncall++
			first := ncall == 1
			mu.Unlock()
			if first {
				<-release // ignores its context: still running when the runtime gives up
				return nil, nil
			}
			var a, b []string
			for _, x := range ps {
				a = append(a, x.Id)
			}
			for _, x := range cc {
				b = append(b, x.Id)
			}
			mu.Lock()
			calls = append(calls, [2][]string{a, b})
			mu.Unlock()
			return nil, nil
		},
	})
	released := false
	defer func() {
		if !released {
			close(release)
		}
		p.StopStub()
	}()
	if err := p.Connect(rt.Sock); err != nil {
		res.Note("%s: connect: %v", tag, err)
		return
	}
	<-syncStart
	select {
	case err := <-syncDone:
		if err == nil {
			res.Note("%s: first synchronization unexpectedly succeeded", tag)
			return
		}
	case <-time.After(30 * time.Second):
		res.Violate("C09/hang", "a synchronization whose handler hangs was not given up after the request timeout (1 s)", what)
		return
	}
	select {
	case <-p.Closed:
	case <-time.After(20 * time.Second):
		res.Note("%s: stub did not notice the dropped connection", tag)
		return
	}
	big := &c09Case{Pods: rep(40, 60<<10), Ctrs: rep(360, 60<<10)}
	np, nc := c09State(big, tag+"b")
	stMu.Lock()
	pods, ctrs = np, nc
	stMu.Unlock()
	adaptation.SetPluginRequestTimeout(30 * time.Second)
	rerr := make(chan error, 1)
	go func() { rerr <- p.Restart() }()
	select {
	case <-syncStart:
	case <-time.After(30 * time.Second):
		res.Violate("C09/restart-failed", "the stub did not get to its second synchronization", what)
		return
	}
	time.Sleep(delay)
	close(release)
	released = true
	var second error
	select {
	case second = <-syncDone:
	case <-time.After(100 * time.Second):
		res.Violate("C09/hang", "second synchronization neither completed nor failed within 100 s", what)
		return
	}
	<-rerr
	mu.Lock()
	defer mu.Unlock()
	var wantP, wantC []string
	for _, x := range np {
		wantP = append(wantP, x.Id)
	}
	for _, x := range nc {
		wantC = append(wantC, x.Id)
	}
	if second != nil || len(calls) != 1 || strings.Join(calls[0][0], ",") != strings.Join(wantP, ",") || strings.Join(calls[0][1], ",") != strings.Join(wantC, ",") {
		got := "none"
		if len(calls) > 0 {
			got = fmt.Sprintf("%d pods, %d containers", len(calls[0][0]), len(calls[0][1]))
		}
		res.Violate("C09/state-differs-after-late-handler", fmt.Sprintf("the re-registered plugin did not receive exactly the runtime's state (%d pods, %d containers, every object <= 64 KiB): err=%v handler calls=%d got %s", len(wantP), len(wantC), second, len(calls), got), what)
		return
	}
	res.Seen(fmt.Sprintf("late-handler|%dms", delay.Milliseconds()))
}
