#!/bin/bash
# seedtest.sh <PROP> <a|b> [check ids...]
# Confirms a seeded change delivered by a sub-agent in /tmp/mut/<PROP>.out/ and runs checks against it:
#   1. in a scratch worktree (outside /repo and /verif): patch applies on /repo HEAD, builds, the existing
#      suite passes, the demonstration fails with the change and passes without;
#   2. applies the patch to /repo, runs the given checks' quick commands (default: the property's own),
#      and restores /repo immediately.
# Results land in /verif/seeded/<PROP>-<a|b>/ (patch.diff, demo/, meta.json, runs.log).
set -u
export GOFLAGS=-mod=mod GOPROXY=off GOSUMDB=off GOTOOLCHAIN=local
P=$1; V=$2; shift 2
CHECKS="${*:-$P}"
SRC=/tmp/mut/$P.out
F=$V
# second wave: variants c/d are a/b of /tmp/mut/<P>.out2
case $V in c) SRC=/tmp/mut/$P.out2; F=a;; d) SRC=/tmp/mut/$P.out2; F=b;; e) SRC=/tmp/mut/$P.out3; F=a;; f) SRC=/tmp/mut/$P.out3; F=b;; g) SRC=/tmp/mut/$P.out4; F=a;; h) SRC=/tmp/mut/$P.out4; F=b;; i) SRC=/tmp/mut/$P.out5; F=a;; j) SRC=/tmp/mut/$P.out5; F=b;; k) SRC=/tmp/mut/$P.out6; F=a;; l) SRC=/tmp/mut/$P.out6; F=b;; m) SRC=/tmp/mut/$P.out7; F=a;; n) SRC=/tmp/mut/$P.out8; F=a;; o) SRC=/tmp/mut/$P.out9; F=a;; p) SRC=/tmp/mut/$P.out10; F=a;; q) SRC=/tmp/mut/$P.out11; F=a;; esac
DST=/verif/seeded/$P-$V
WT=/tmp/seedwt.$P.$V.$$
mkdir -p $DST/demo
cp $SRC/$F.diff $DST/patch.diff
cp -r $SRC/${F}_demo/. $DST/demo/ 2>/dev/null
log=$DST/runs.log; : > $log
say() { echo "$@" | tee -a $log; }

demo_cmd=$(grep -o 'run: .*' $DST/demo/WHERE.txt 2>/dev/null | head -1 | sed 's/^run: *//')
# SEEDTEST_FAST=1: a change that was confirmed before (meta.json says so) is only applied and checked again
if [ "${SEEDTEST_FAST:-}" = 1 ] && [ "$(jq -r .confirmed $DST/meta.json 2>/dev/null)" = true ]; then
  say "fast mode: confirmation of an earlier run reused"
  FASTMODE=1
fi
if [ -z "${FASTMODE:-}" ]; then
git -C /repo worktree add -q --detach $WT HEAD || { say "cannot create worktree"; exit 2; }
cleanup() { git -C /repo worktree remove --force $WT 2>/dev/null; rm -rf $WT; }
trap cleanup EXIT

# demo placement: WHERE.txt lines "file -> path ; run: cmd"
place_demo() {
  local where=$DST/demo/WHERE.txt
  [ -f $where ] || return 1
  grep -- '->' $where | while IFS= read -r line; do
    f=$(echo "$line" | sed 's/ *->.*//' | awk '{print $NF}')
    t=$(echo "$line" | sed 's/.*-> *//; s/ *;.*//' | awk '{print $1}')
    [ -f "$DST/demo/$f" ] && mkdir -p "$WT/$(dirname $t)" && cp "$DST/demo/$f" "$WT/$t"
  done
}
demo_cmd=$(grep -o 'run: .*' $DST/demo/WHERE.txt 2>/dev/null | head -1 | sed 's/^run: *//')
say "demo command: $demo_cmd"

cd $WT
place_demo
say "== demo WITHOUT the change (must pass)"
( eval "$demo_cmd" ) >>$log 2>&1; rc_clean=$?
say "   exit $rc_clean"
if ! git apply --3way $DST/patch.diff >>$log 2>&1 && ! git apply $DST/patch.diff >>$log 2>&1; then say "PATCH DOES NOT APPLY"; exit 2; fi
say "== build + existing suite WITH the change (must pass)"
go build ./... >>$log 2>&1; rc_build=$?
# run the suite without the demo files
mkdir -p /tmp/seeddemo.$$; git -C $WT status --short | awk '$1=="??"{print $2}' | while read f; do mkdir -p /tmp/seeddemo.$$/$(dirname $f); mv $WT/$f /tmp/seeddemo.$$/$f; done
go test -vet=off -count=1 ./... >>$log 2>&1; rc_suite=$?
for m in plugins/device-injector plugins/ulimit-adjuster; do (cd $m && go test -vet=off -count=1 ./... >>$log 2>&1) || rc_suite=1; done
(cd /tmp/seeddemo.$$ && find . -type f | while read f; do mkdir -p $WT/$(dirname $f); mv $f $WT/$f; done); rm -rf /tmp/seeddemo.$$
say "   build exit $rc_build, suite exit $rc_suite"
say "== demo WITH the change (must fail)"
( eval "$demo_cmd" ) >>$log 2>&1; rc_mut=$?
say "   exit $rc_mut"
cd /verif
fi # FASTMODE
confirmed=false
if [ -n "${FASTMODE:-}" ]; then confirmed=true; elif [ $rc_clean = 0 ] && [ $rc_build = 0 ] && [ $rc_suite = 0 ] && [ $rc_mut != 0 ]; then confirmed=true; fi
say "confirmed=$confirmed"

# --- run checks against /repo with the patch
results="{}"
if $confirmed && [ -z "${SEEDTEST_NOCHECK:-}" ]; then
  if [ -n "$(git -C /repo status --short | grep -v '^??')" ]; then say "/repo has local changes; refusing"; exit 2; fi
  git -C /repo apply --3way $DST/patch.diff >>$log 2>&1 || git -C /repo apply $DST/patch.diff >>$log 2>&1 || { say "patch does not apply to /repo"; exit 2; }
  for c in $CHECKS; do
    # evidence files must come from runs on the unchanged tree: keep the committed one aside
    [ -f /verif/evidence/$c.json ] && cp /verif/evidence/$c.json /verif/work/evidence.$c.keep.$$
    out=$(/verif/vcheck $c quick 2>&1); rc=$?
    [ -f /verif/work/evidence.$c.keep.$$ ] && mv -f /verif/work/evidence.$c.keep.$$ /verif/evidence/$c.json
    echo "$out" | cut -c1-500 >>$log
    sigs=$(echo "$out" | grep -o 'signature=[^ ]*' | sort -u | tr '\n' ' ')
    say "check $c quick: exit $rc $sigs"
    results=$(echo "$results" | jq --arg c $c --argjson rc $rc --arg s "$sigs" '.[$c]={exit:$rc,signatures:$s}')
  done
  git -C /repo reset -q; git -C /repo checkout -- .
  [ -n "$(git -C /repo status --short | grep -v '^??')" ] && say "WARNING: /repo not clean after restore"
fi
jq -n --arg p $P --arg v $V --argjson confirmed $confirmed --arg demo "$demo_cmd" --argjson results "$results" \
  --arg notes "$(awk "/utation $(echo $F | tr a-z A-Z)/,0" $SRC/NOTES.md 2>/dev/null | head -60)" \
  '{property:$p, variant:$v, confirmed:$confirmed, demo_cmd:$demo, ran:"seedtest.sh: scratch worktree of /repo HEAD: demo passes without change, patch applies, go build + go test ./... (+ device-injector, ulimit-adjuster modules) pass with change, demo fails with change; then patch applied to /repo, checks quick tier run, /repo restored", check_results:$results, agent_notes:$notes}' > $DST/meta.json
cat $DST/meta.json | jq -c '{property,variant,confirmed,check_results}'
