#!/bin/bash
# run_all.sh <quick|thorough> [ids...]: runs the checks one after another and prints one line per check
tier=${1:-quick}; shift
ids=${*:-C01 C02 C03 C04 C05 C06 C07 C08 C09 C10 C11 C12 C13 C14 C15 C16 C17 C18 C19 C20}
for c in $ids; do
  t0=$(date +%s)
  out=$(/verif/vcheck $c $tier 2>&1); rc=$?
  t1=$(date +%s)
  echo "$c rc=$rc $((t1-t0))s $(echo "$out" | grep -E '^(OK|VIOLATION|INCONCLUSIVE|HARNESS-BUG|KNOWN-FINDING|BUILD-FAILED)' | head -4 | cut -c1-220 | tr '\n' '|')"
done
