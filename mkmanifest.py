#!/usr/bin/env python3
"""Regenerates /verif/MANIFEST.json from the table below (kept valid at all times)."""
import json, subprocess, sys

FE = "fault_enumeration"
EX = "exploration"

# id -> (level, design_ref, technique, level text, level note)
CHECKS = {
 "C01": (EX, "DESIGN.md §3 C01", "runtime monitoring: real Adaptation + stub plugins, reference ownership ledger as oracle, race detector",
         "Every generated request (systematic 29 kinds x paths x distances x patterns incl. same-value and original-value collisions and decoy removals, the plain list once more with two plugin instances under one name, plus random colliding responses, 1/4/16 requests in flight) is executed by the real adaptation with real stub plugins; an independent ownership ledger decides whether it had to fail. Held on the executions produced, not a proof.",
         "Trusts the reference ledger (merge_model.go) as a transcription of the statement (it interprets removal markers itself and calls no helper of the code under test); unspecified cases (same plugin twice, claims on fields of a dropped update) are not asserted."),
 "C02": (EX, "DESIGN.md §3 C02", "runtime monitoring: real Adaptation + stub plugins, reference ownership ledger as oracle, race detector",
         "Conflict-free and removal-prefixed response sets (every ordered pair of different resource kinds on four paths, bare args removal, systematic removal patterns, random, incl. fully pre-populated update requests) must succeed on the real adaptation; any error is a violation.",
         "Trusts the reference ledger; sampling of inputs, not enumeration."),
 "C03": (EX, "DESIGN.md §3 C03", "runtime monitoring: differential execution of the project's generator on the combined vs the sequential adjustments, plus owner's-value oracle",
         "For every successful creation the combined adjustment returned by the real adaptation is applied with the project's generator and compared with applying each plugin's adjustment in turn; resource fields the generator does not carry are compared with the model owner's values, and the generator-applied combined adjustment with the reference model's final container (env, annotations, mounts, devices).",
         "Canonicalisation (env/annotations as maps, mounts/devices keyed, hooks/rlimits/CDI in order) is assumed not to hide a real difference; harness resolvers stand in for CDI/blockio/RDT."),
 "C04": (EX, "DESIGN.md §3 C04", "runtime monitoring: handler-argument log of every plugin vs reference model; sentinel plugin vs generator-applied reply",
         "Every plugin's handler arguments (container on create, resources on update) are compared with the reference model after the earlier plugins; a no-op last plugin's view is compared with what the runtime obtains from the combined reply; update requests carry device cgroup rules that every plugin must see.",
         "Trusts the reference apply-adjustment model; nil vs empty collections are treated as equal."),
 "C05": (EX, "DESIGN.md §3 C05", "runtime monitoring: response Update lists vs reference per-target field model",
         "Update lists of create/update/stop responses from the real adaptation are checked for one entry per target with exactly the owners' fields, own entry last, self-update failing, dropped ignore-failure updates (scalar, map and list fields) leaking nothing; for cases whose outcome is open (a plugin naming one item twice) only one-entry-per-target and no repeated page size are asserted. Since the eighth wave also through an adaptation with no plugin at all (never any / after the last one left).",
         "Flag value of a combined entry and blank entries for targets whose only updates were dropped are not asserted (unstated)."),
 "C06": (EX, "DESIGN.md §3 C06", "runtime monitoring: unique-id handler-invocation log and call/return log of a real Adaptation with stub plugins, offline exactly-once/order checkers, porcupine sequencer model, race detector, CPU-affinity sweeps",
         "Plugins with enumerated/sampled subscription masks (all 8192 in the thorough tier), tied and distinct indices, registering before and during traffic, receive random sequences of the thirteen lifecycle calls from 1/4/16 concurrent callers, with and (in a separate scenario with 60 registrations) without sync blocks, after an idle period longer than the request timeout, and after callers cancelled their own requests; the logs are checked for exactly-once delivery to subscribed active plugins, index order, one common order, real-time order and own results.",
         "Activity of a plugin for a request is decided from the sync-block ticket vs the plugin's Synchronize tick; equal-index order is not asserted."),
 "C07": (FE, "DESIGN.md §3 C07", "runtime monitoring with fault injection: raw protocol peers behind a harness-owned cut-wrapper inside a real Adaptation, enumerated fault kinds x positions x request types x byte offsets, result/latency/invocation-log oracles, hang rule with goroutine dumps, race detector, CPU-affinity sweeps",
         "Every listed fault (peer close before/on/after, cut after k bytes of request or response, handler hang, malformed frames, unknown connection id, stalled 1 MiB request, flooding peer that stops reading, handler error from raw peers and, for all thirteen request kinds, from stub-based plugins) is injected at first/middle/last position for each request type, alone and in pairs, followed by two healthy requests; the request must complete in time with exactly the survivors' contributions, survivors invoked once, failed plugin dropped; handler errors must veto.",
         "Cuts of the runtime-to-plugin direction are applied at the peer's end of the real socket; multi-gigabyte length fields are not injected."),
 "C08": (EX, "DESIGN.md §3 C08", "runtime monitoring: exactly-once checker over snapshot/creation id logs, online monitor of held sync blocks vs running synchronisations, hook-widened race windows, race detector",
         "Concurrent creators under sync blocks and plugins registering meanwhile, in every fifth round against a store whose snapshot is split in two or three messages with one registration cut mid-snapshot and repeated; for every registered plugin and every container of the runtime's store, snapshot membership plus creation events must be exactly one; the sync callback must never run while a block is held; pending registrations must complete, and (bounded progress, hook sync.request) get their turn within a few all-blocks-released moments. Since the eighth/ninth wave: all twelve request kinds that need no sync block are relayed meanwhile, and every second round has a plugin speaking the protocol directly that answers Configure with an empty mask.",
         "The runtime side follows the documented sync-block contract; schedules are those produced by 1-16 CPUs, repetition and the hook yields."),
 "C09": (EX, "DESIGN.md §3 C09", "runtime monitoring: generated runtime states against a stub plugin (reassembled handler arguments) and a raw protocol peer (per-message chunk log), process-liveness supervision, race detector",
         "States from empty to 20000 objects in many size distributions (boundary totals around the 4 MiB limit, skewed shapes forcing the minimum chunk) are synchronized by the real adaptation; states whose objects are <= 64 KiB or whose eight largest objects fit one message must be delivered exactly once in order, others may fail cleanly; panics, partial states, empty-chunk loops and hangs are violations; plus a re-registration history after an aborted split, pre-installed plugins synchronized at Start, and a plugin without a Synchronize handler.",
         "'individually transmissible' is taken as: every object <= 64 KiB, or the eight largest objects fit one message (the implementation's documented minimum chunk)."),
 "C10": (EX, "DESIGN.md §3 C10", "runtime monitoring: stream parser + real-time-order monitor over recorded write/read histories of two real Mux endpoints, porcupine FIFO check on short histories, race detector, hook-widened interleavings",
         "Concurrent writers and readers over K logical connections of two real multiplexer endpoints (socketpair and net.Pipe trunks, queue lengths 2-256, payloads from empty to several frames); each delivered stream is parsed for completeness, order, integrity and isolation; harness-side credit enforces 'receiver keeps up'; handle scenarios cover concurrent Open, reopen, stale close, re-dial, traffic during open/close churn and late readers within queue lengths 1-1000.",
         "Readers pass a buffer of one full frame; connection ids are opened on both ends before traffic."),
 "C11": (FE, "DESIGN.md §3 C11", "runtime monitoring with fault injection: harness-owned cut-wrapper at every enumerated trunk byte offset, close/overflow schedules, prefix parser and hang rule with goroutine dumps, race detector",
         "Fault points are enumerated for a fixed exchange (every byte offset in the thorough tier, all frame boundaries plus a stride in quick) and sampled for close timing/closer counts/overflow positions, plus transient short writes at every offset, listener close races and connections obtained after a failure; oracles: prefix property, every blocked/later operation errors, EOF after orderly close, closers return.",
         "Completeness is not asserted for a close racing unread data; overflow is exercised on the buffering socketpair trunk only."),
 "C12": (EX, "DESIGN.md §3 C12", "runtime monitoring: descriptor-driven differential execution of the two generated codecs (cross-decode, round trips, size, presence)",
         "Every message type with the specialised codec (found through the registry at run time) is populated field by field and at random; both encoders' bytes are decoded by the other decoder and compared with proto.Equal plus an explicit presence walk; SizeVT is compared with the bytes written; unknown fields of a later protocol revision must survive both codecs. Since the ninth wave every length-delimited field is also swept through the varint boundaries of its length prefix (118..136, 16370..16390 bytes).",
         "Valid UTF-8 strings and non-nil repeated/map message values only; the wasm call path itself cannot be driven here, the codec pair is executed natively."),
 "C14": (EX, "DESIGN.md §3 C14", "runtime monitoring: round-trip and aliasing oracles over generated values; exhaustive enumeration of the 8191 event masks; race detector",
         "All 8191 event masks enumerated; every optional constructor x accepted type x boundary value; random resources/mounts/devices/hooks/env through both round trips with presence-aware comparison; Copy() compared, address-walked and mutated; ToOCI() results written through without changing the original; the mask parser used concurrently from its first call on, under the race detector.",
         "Only fields both representations carry are compared; env entries have the name=value form."),
 "C13": (EX, "DESIGN.md §3 C13", "runtime monitoring: reference interpreter vs Generator.Adjust, repeated-application determinism monitor, mount-order and untouched-remainder assertions",
         "Random specs x adjustments applied by the real generator 16/32 times each; result compared with a reference interpreter written from the statement, with itself across repetitions, and checked for parent-before-child mounts and an untouched remainder; the adjustment object itself must be left unchanged and the CDI injector called once.",
         "Memory limit also setting swap is taken as intended (asserted by the repo's own suite); rshared/rslave propagation excluded (reads the host mount table)."),
 "C15": (EX, "DESIGN.md §3 C15", "runtime monitoring: plugin types generated and compiled at check time, driven by a scripted raw runtime; handler-invocation recorder and response comparison; race detector",
         "One struct type per subset of the thirteen handler interfaces (all 8192 in the thorough tier) is generated, compiled and run against a raw protocol peer: subscription mask, configuration-time subsets and rejections, exactly-once dispatch of every event to exactly its handler with equal arguments, results and errors returned unchanged; Synchronize in 1-4 messages, and after a connection lost mid-synchronization. Since the eighth wave configuration masks written as strings (api.ParseEventMask) are checked against a table in the harness and through six real stub plugins.",
         "The runtime end is a harness peer on the public multiplexer and generated ttRPC stubs; unimplemented events are only checked for the absence of stray invocations."),
 "C16": (FE, "DESIGN.md §3 C16", "runtime monitoring with fault injection: cut-wrapper on the stub's own connection at enumerated handshake byte offsets, Start/Stop/Wait/loss histories, hang rule with goroutine dumps, hook-delayed close notification, race detector",
         "The handshake is cut at byte offsets in both directions (every offset in the thorough tier) and fixed plus random histories of Start, failing Start, Stop, Wait, connection loss are executed; every call must return, a later Start on a fresh connection must work and survive the earlier session's late notification, the close notification fires once per established session; a configuration result of a dead session must not satisfy the next Start.",
         "Whether OnClose also fires for a never-established attempt is not asserted; the first Start is bounded by the stub's built-in 5 s registration timeout."),
 "C17": (FE, "DESIGN.md §3 C17", "runtime monitoring with fault injection: raw protocol peers with enumerated names/indices/masks/stall points ahead of a real stub plugin through the real socket; activation observed at the peers; filesystem-mode and connect probes under several umasks; race detector",
         "Every listed ill- or well-formed registration (names, index strings, all single mask bits valid and invalid, random masks, five stall points, up to four of them ahead of a good plugin) is executed against the real adaptation; a peer must be synchronized and receive events iff it is well-formed and timely, the good plugin must get through within the bound; directories NRI creates for the socket must be private under umask 000-077; no socket when external connections are disabled (either option order); a registration after the registration timeout (shorter than the request timeout) is not activated.",
         "Timeouts 800/500 ms via NRI's setters; at most three silent peers per case."),
 "C18": (FE, "DESIGN.md §3 C18", "runtime monitoring at process level: a probe plugin (real stub) launched by the real Adaptation reports its environment, arguments and descriptor table (raw system calls before any Go I/O), configuration and invocations; generated plugin directories incl. failing plugins; /proc process-state probes after drop and after Stop",
         "Generated directory contents (executables, non-executables, subdirectories, drop-in pairs, failure-mode plugins) are served by a real Adaptation in a child process; what each launched process was given and what happened to it (incl. probes that fail configuration or ignore SIGTERM) is observed from inside the probe and from the process table; the updates the probes return from Synchronize must all reach the runtime.",
         "Zombies of self-exited plugins are recorded only; unparseable executable names and wasm plugins are outside what is asserted."),
 "C19": (EX, "DESIGN.md §3 C19", "runtime monitoring: online mutual-exclusion counters in the update callback and lifecycle handlers, offline exactly-once/equality checker over unique update ids, porcupine sequencer model, race detector",
         "Plugins issue unsolicited updates concurrently with each other and with lifecycle requests; the callback's overlap with itself and with any handler is counted online; arguments and results are compared by unique id offline; updates issued from the Configure and Synchronize handlers, during Start, with a dropped connection and with slow callbacks are separate scenarios.",
         "Overlap is observed at the callback and handler boundaries of one process; empty update lists carry no id and are not generated."),
 "C20": (EX, "DESIGN.md §3 C20", "runtime monitoring: the built sample plugins launched by a real Adaptation; annotation sets generated from structured values with a reference expectation; response comparison",
         "Creation requests with generated pod annotations (all scope combinations, other containers' keys, prefix-related names, YAML/JSON, empty values, 64-bit boundary rlimits, ill-formed payloads) go through the real adaptation to the two built plugin binaries; the adjustment must be exactly what the most specific annotation describes, ill-formed ones must fail the request; the ulimit adjuster is also driven alone by a raw runtime with one rlimit type named twice.",
         "Through the adaptation, keys within one annotation are unique (same-plugin duplicates are undefined there); repeated rlimit types are decided at the plugin's own boundary."),
}

NOT_YET = {}

def main():
    props = [json.loads(l)["id"] for l in open("/verif/properties.jsonl")]
    hooks_commits = []
    try:
        out = subprocess.run(["git", "-C", "/repo", "log", "--format=%H %s"], capture_output=True, text=True).stdout
        for l in out.splitlines():
            h, s = l.split(" ", 1)
            if s.startswith("verif hook"):
                hooks_commits.append(h)
    except Exception:
        pass
    checks = []
    for pid in props:
        if pid not in CHECKS:
            continue
        level, ref, tech, text, note = CHECKS[pid]
        checks.append({
            "property_id": pid,
            "quick_cmd": f"./vcheck {pid} quick",
            "thorough_cmd": f"./vcheck {pid} thorough",
            "evidence_file": f"/verif/evidence/{pid}.json",
            "replay_cmd_template": "./vcheck --replay {path}",
            "engine": "vcheck",
            "level_claimed": {"category": level, "text": text, "design_ref": ref},
            "level_note": note,
            "technique": tech,
        })
    na = []
    for pid in props:
        if pid not in CHECKS:
            na.append({"property_id": pid, "reason": NOT_YET.get(pid, "check not built yet in this revision of /verif (work in progress; see DESIGN.md §3 for the planned monitor)")})
    m = {
        "version": 1,
        "setup_cmd": "./vcheck --build",
        "hooks": {
            "guard": "verif",
            "enable": "go build -tags verif (the harness module replaces github.com/containerd/nri with /repo, so every check rebuilds /repo's working tree with the tag on)",
            "baseline_off_cmd": "/verif/baseline_off.sh",
            "source_commits": hooks_commits,
            "add_only": True,
        },
        "engines": [{
            "name": "vcheck", "path": "/verif/vcheck",
            "serves_properties": [c["property_id"] for c in checks],
            "kind_free_text": "runtime monitoring: Go harness (module /verif/harness) running the real NRI packages from /repo under generated/hostile/faulted workloads with monitors and the Go race detector; parent/child supervision, evidence writer, known-findings matcher",
        }],
        "checks": checks,
        "notes": "All checks: exit 0 held, 1 + VIOLATION line, 3 inconclusive/harness problem (never a VIOLATION line). VERIF_SEED selects the case lists. Fixed defects are listed in known_findings.json (status fixed; they suppress nothing).",
        "not_applicable": na,
    }
    json.dump(m, open("/verif/MANIFEST.json", "w"), indent=1)
    print("claimed:", [c["property_id"] for c in checks], "not claimed:", [n["property_id"] for n in na])

main()
