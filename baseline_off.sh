#!/bin/bash
# Runs the repository's pinned baseline (BASELINE.json "cmd") with the verif guard OFF and
# prints a pass/fail summary; exit 0 iff the 39 stable tests pass and no test fails.
export GOFLAGS=-mod=mod GOPROXY=off GOSUMDB=off GOTOOLCHAIN=local
out=$(mktemp)
for m in $(cat /w/out/gomods.txt); do
  MF=$(cd /repo/$m && . /w/out/goenv.sh && gomodflag)
  (cd /repo/$m && go test $MF -json -vet=off -count=1 -timeout 25m ./...)
done > $out 2>&1
pass=$(grep -c '"Action":"pass","Package":"[^"]*","Test"' $out)
fail=$(grep -c '"Action":"fail","Package":"[^"]*","Test"' $out)
echo "baseline (guard off): tests passed=$pass failed=$fail (BASELINE.json: 39 stable tests; plugins/wasm has no natively buildable tests)"
rc=0
if [ "$fail" != 0 ]; then grep '"Action":"fail","Package":"[^"]*","Test"' $out | head; rc=1; fi
if [ "$pass" -lt 39 ]; then echo "fewer than 39 passing tests"; rc=1; fi
rm -f $out
exit $rc
