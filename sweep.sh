#!/bin/bash
# sweep.sh [seeds...]: every quick check at every given seed; prints only what is not OK
seeds=${*:-1 2 3 7 42}
for s in $seeds; do
  VERIF_SEED=$s /verif/run_all.sh quick | grep -v " rc=0 " | sed "s/^/seed=$s /"
  echo "seed=$s done"
done
